"""Build flex from the *current working tree* of /repo/src into a private directory.

No `make` (plain make ignores flag changes and would write into /repo): the recipe of
src/Makefile.am is replayed by hand on a snapshot of the sources:
  mkskel.sh x3 -> bison -> system lex for the stage-1 scan.c -> stage1flex ->
  stage1scan.c -> flex.
Builds are cached under /verif/.cache keyed by the SHA-256 of every source file and the
variant, so that 20 checks on one tree compile flex once per variant; any edit to any
file of src/ gives a new key.
"""
import os, sys, hashlib, shutil, glob, time, fcntl
from . import util

GUARD = "FLEX_VERIF"
SRC_PATTERNS = ("*.c", "*.h", "*.l", "*.y", "*.skl", "*.sh", "*.in")
GENERATED = {"parse.c", "parse.h", "scan.c", "stage1scan.c", "stage2scan.c",
             "cpp-flex.h", "c99-flex.h", "go-flex.h", "config.h"}
COMMON = ["buf", "ccl", "dfa", "ecs", "filter", "gen", "main", "misc", "nfa", "options",
          "regex", "scanflags", "scanopt", "skeletons", "sym", "tables", "tables_shared",
          "tblcmp", "yylex"]

VARIANTS = {
    "plain": ["-O1", "-g"],
    "san": ["-O1", "-g", "-fno-omit-frame-pointer", "-fsanitize=address,undefined",
            "-fno-sanitize-recover=all"],
    "cov": ["-O0", "-g", "--coverage"],
}

CACHE = os.path.join(util.VERIF, ".cache")


class BuildError(Exception):
    pass


def source_files(src):
    out = []
    for pat in SRC_PATTERNS:
        for p in glob.glob(os.path.join(src, pat)):
            b = os.path.basename(p)
            if b in GENERATED:
                continue
            out.append(p)
    return sorted(set(out))


def tree_hash(src):
    h = hashlib.sha256()
    for p in source_files(src):
        h.update(os.path.basename(p).encode() + b"\0")
        with open(p, "rb") as f:
            h.update(hashlib.sha256(f.read()).digest())
    cfg = config_h_path(src)
    with open(cfg, "rb") as f:
        h.update(f.read())
    return h.hexdigest()[:20]


def config_h_path(src):
    p = os.path.join(src, "config.h")
    if os.path.exists(p):
        return p
    # fallback: the copy recorded with the machinery (same configure result)
    return os.path.join(util.VERIF, "vf", "config.h.fallback")


def _sh(cmd, cwd, what, stdout=None):
    r = util.run(cmd, cwd=cwd, env=util.clean_env(), timeout=300,
                 stdout=stdout if stdout is not None else -1)
    if r.rc != 0 or r.timed_out:
        raise BuildError("%s failed (rc=%s): %s\n%s" % (what, r.rc, " ".join(cmd),
                                                     r.err.decode("latin1")[-3000:]))
    return r


def _build_into(src, dst, variant):
    os.makedirs(dst, exist_ok=True)
    for p in source_files(src):
        shutil.copy2(p, dst)
    shutil.copy2(config_h_path(src), os.path.join(dst, "config.h"))
    version = "2.6.4"
    for line in open(os.path.join(dst, "config.h")):
        if line.startswith("#define VERSION "):
            version = line.split('"')[1]
    for lang in ("cpp", "c99", "go"):
        with open(os.path.join(dst, "%s-flex.h" % lang), "wb") as f:
            _sh(["sh", "mkskel.sh", lang, ".", "/usr/bin/m4", version], dst,
                "mkskel %s" % lang, stdout=f)
        _sh(["sh", "chkskel.sh", "%s-flex.h" % lang], dst, "chkskel %s" % lang)
    _sh(["bison", "-y", "-d", "-o", "parse.c", "parse.y"], dst, "bison")
    _sh(["/usr/bin/flex", "-o", "scan.c", "scan.l"], dst, "system lex (stage 1)")
    cflags = VARIANTS[variant] + ["-DHAVE_CONFIG_H", "-I.", "-D%s" % GUARD,
                                  '-DLOCALEDIR="/usr/local/share/locale"', "-w"]
    objs = COMMON + ["parse", "scan"]

    def cc(name):
        _sh(["gcc"] + cflags + ["-c", name + ".c", "-o", name + ".o"], dst, "cc " + name)
    util.pmap(cc, objs)
    ld = [f for f in VARIANTS[variant] if f.startswith("-fsanitize") or f == "--coverage"]
    _sh(["gcc"] + ld + ["-o", "stage1flex"] + [o + ".o" for o in objs] + ["-lm"], dst,
        "link stage1flex")
    env = util.clean_env({"ASAN_OPTIONS": "detect_leaks=0"})
    with open(os.path.join(dst, "stage1scan.c"), "wb") as f:
        r = util.run(["./stage1flex", "-o", "scan.c", "-t", "scan.l"], cwd=dst, env=env,
                     timeout=120, stdout=f)
    if r.rc != 0 or r.timed_out:
        raise BuildError("stage1flex on scan.l failed rc=%s: %s" % (
            r.rc, r.err.decode("latin1")[-3000:]))
    cc("stage1scan")
    _sh(["gcc"] + ld + ["-o", "flex"] + [o + ".o" for o in COMMON + ["parse", "stage1scan"]]
        + ["-lm"], dst, "link flex")
    if variant != "cov":
        for o in glob.glob(os.path.join(dst, "*.o")):
            os.unlink(o)


class Flex:
    """Handle on a built flex: path of the binary, of its source snapshot (for
    FlexLexer.h) and the environment to run it with."""

    def __init__(self, root, variant):
        self.root = root
        self.variant = variant
        self.bin = os.path.join(root, "flex")
        self.stage1 = os.path.join(root, "stage1flex")
        self.include = root

    def env(self, tmpdir=None, extra=None):
        e = {"ASAN_OPTIONS": "detect_leaks=0:abort_on_error=0:exitcode=99",
             "UBSAN_OPTIONS": "print_stacktrace=1:halt_on_error=1:exitcode=98"}
        if extra:
            e.update(extra)
        return util.clean_env(e, tmpdir)


def _prune(keep=6):
    try:
        ents = [os.path.join(CACHE, d) for d in os.listdir(CACHE) if d.startswith("flex-")]
    except FileNotFoundError:
        return
    ents.sort(key=lambda p: os.path.getmtime(p), reverse=True)
    for p in ents[keep:]:
        shutil.rmtree(p, ignore_errors=True)


def get_flex(variant="san", src=None, cache=True):
    """Return a Flex built from `src` (default /repo/src working tree)."""
    src = src or os.path.join(util.REPO, "src")
    if os.environ.get("VERIF_NO_CACHE"):
        cache = False
    key = tree_hash(src)
    os.makedirs(CACHE, exist_ok=True)
    dst = os.path.join(CACHE, "flex-%s-%s" % (key, variant))
    lock = open(os.path.join(CACHE, ".lock-%s-%s" % (key, variant)), "w")
    fcntl.flock(lock, fcntl.LOCK_EX)
    try:
        ok = os.path.join(dst, ".ok")
        if cache and os.path.exists(ok):
            os.utime(dst)
            return Flex(dst, variant)
        shutil.rmtree(dst, ignore_errors=True)
        t0 = time.time()
        try:
            _build_into(src, dst, variant)
        except BuildError:
            shutil.rmtree(dst, ignore_errors=True)
            raise
        util.write(ok, "built in %.1fs\n" % (time.time() - t0))
        _prune()
        return Flex(dst, variant)
    finally:
        fcntl.flock(lock, fcntl.LOCK_UN)
        lock.close()
        try:
            os.unlink(lock.name)
        except OSError:
            pass


if __name__ == "__main__":
    v = sys.argv[1] if len(sys.argv) > 1 else "san"
    t0 = time.time()
    try:
        f = get_flex(v)
    except BuildError as e:
        print("BUILD FAILED:", e)
        sys.exit(2)
    print(f.bin, "%.1fs" % (time.time() - t0))
