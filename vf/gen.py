"""Random generation of cases: pattern ASTs, rule sets, action scripts, inputs.

A *profile* (dict) says which constructs may appear; the per-property checks choose
profiles.  Known-finding features are excluded through profile["avoid"] (a set of names)
so that everything else is still explored.
"""
from . import pat, util

BASE_ALPHA = b"abcd01 \n"
POSIX_NAMES = sorted(pat.POSIX)


def default_profile():
    return {
        "alpha": BASE_ALPHA,        # bytes used for literals and inputs
        "extra_alpha": b"",         # e.g. NUL / high bytes
        "nrules": (1, 8),
        "depth": 3,
        "features": {"ccl", "posixcls", "cclop", "rep", "str", "dot", "grp", "flags",
                     "refs", "alt", "closure", "esc"},
        "avoid": set(),
        "ci": False,                # global case-insensitive option
        "posix": False,
        "bits": 8,
        "scs": 0,                   # number of extra start conditions
        "bol": 0,                   # percentage of rules with ^
        "trail": 0,                 # percentage of rules with trailing context
        "bar": 0,                   # percentage of '|' actions
    }


class Gen:
    def __init__(self, rng, prof):
        self.rng = rng
        self.p = prof
        self.alpha = bytes(prof["alpha"]) + bytes(prof.get("extra_alpha", b""))
        if prof.get("ci") or "flags" in prof["features"]:
            self.alpha_ci = self.alpha + b"AB"
        else:
            self.alpha_ci = self.alpha
        self.defs = []
        self.csize = 128 if prof.get("bits") == 7 else 256
        self.in_ci = False

    def has(self, f):
        return f in self.p["features"] and f not in self.p["avoid"]

    # ----------------------------------------------------------------- patterns
    def byte(self):
        a = self.alpha_ci
        c = a[self.rng.below(len(a))]
        if self.rng.chance(6):
            # any byte of the scanner's alphabet
            c = self.rng.below(self.csize)
            if self.p.get("no_nul") and c == 0:
                c = 1
        return c

    def ccl_node(self, allow_neg=True):
        rng = self.rng
        items = []
        n = rng.rint(1, 4)
        for _ in range(n):
            t = rng.below(10)
            if t < 5:
                items.append(("c", self.byte()))
            elif t < 8:
                lo = self.byte()
                hi = min(self.csize - 1, lo + rng.rint(0, 6))
                if self.in_ci or self.p.get("ci"):
                    # only the range forms the manual tabulates as unambiguous
                    if pat.has_case(lo) != pat.has_case(hi) or (
                            pat.has_case(lo) and pat.is_lower(lo) != pat.is_lower(hi)):
                        hi = lo
                    elif not pat.has_case(lo):
                        # a caseless range that spans letters is ambiguous: keep it
                        # outside the letters
                        if any(pat.has_case(x) for x in range(lo, hi + 1)):
                            hi = lo
                items.append(("r", lo, hi))
            elif self.has("posixcls"):
                name = rng.choice(POSIX_NAMES)
                neg = rng.chance(30)
                if (self.in_ci or self.p.get("ci") or self.has("flags")) and neg and \
                        name in ("upper", "lower"):
                    neg = False
                items.append(("p", name, neg))
            else:
                items.append(("c", self.byte()))
        neg = allow_neg and rng.chance(25)
        return ("ccl", neg, items)

    def cclop_node(self):
        rng = self.rng
        first = self.ccl_node()
        ops = []
        for _ in range(rng.rint(1, 3)):
            op = rng.choice("-+")
            rhs = self.ccl_node()
            if "neg_union" in self.p["avoid"] and op == "+":
                # known finding: a negated class as an operand of {+}
                rhs = ("ccl", False, rhs[2])
                if first[1] and not ops:
                    first = ("ccl", False, first[2])
            ops.append((op, rhs))
        if "neg_union" in self.p["avoid"] and any(op == "+" for op, _ in ops):
            first = ("ccl", False, first[2])
            ops = [(op, ("ccl", False, r[2])) for op, r in ops]
        return ("cclop", first, ops)

    def atom(self, depth):
        rng = self.rng
        choices = [("chr", 40)]
        if self.has("dot"):
            choices.append(("dot", 8))
        if self.has("ccl"):
            choices.append(("ccl", 14))
        if self.has("cclop"):
            choices.append(("cclop", 4))
        if self.has("str"):
            choices.append(("str", 8))
        if self.has("grp") and depth > 0:
            choices.append(("grp", 12))
        if self.has("refs") and self.defs:
            choices.append(("ref", 6))
        k = rng.wchoice(choices)
        if k == "chr":
            return ("chr", self.byte())
        if k == "dot":
            return ("dot",)
        if k == "ccl":
            return self.ccl_node()
        if k == "cclop":
            return self.cclop_node()
        if k == "str":
            return ("str", bytes(self.byte() for _ in range(rng.rint(1, 4))))
        if k == "ref":
            return ("ref", rng.choice(self.defs)[0])
        if k == "grp":
            on = off = None
            saved = self.in_ci
            if self.has("flags") and not self.p.get("posix") and rng.chance(40):
                fl = [f for f in "isx" if rng.chance(40)]
                if "dotall" in self.p["avoid"] and "s" in fl:
                    fl.remove("s")
                on = "".join(fl)
                offl = [f for f in "isx" if f not in fl and rng.chance(20)]
                off = "".join(offl) or None
                if "i" in on:
                    self.in_ci = True
                if off and "i" in off:
                    self.in_ci = False
                if not on and not off:
                    on = ""
            inner = self.regex(depth - 1)
            self.in_ci = saved
            return ("grp", inner, on, off)
        raise AssertionError(k)

    def piece(self, depth):
        rng = self.rng
        a = self.atom(depth)
        if self.has("closure") and rng.chance(25):
            a = (rng.choice(["star", "plus", "opt"]), a)
        elif self.has("rep") and rng.chance(10):
            form = rng.choice(["exact", "min", "range"])
            lo = rng.rint(1, 3)
            hi = None
            if form == "range":
                lo = rng.rint(0, 2)
                hi = lo + rng.rint(1, 2) if lo == 0 else lo + rng.rint(0, 2)
            a = ("rep", a, lo, hi, form)
        return a

    def series(self, depth):
        n = self.rng.rint(1, 4)
        parts = [self.piece(depth) for _ in range(n)]
        if len(parts) == 1:
            return parts[0]
        return ("cat", parts)

    def regex(self, depth):
        if self.has("alt") and self.rng.chance(25):
            return ("alt", [self.series(depth) for _ in range(self.rng.rint(2, 3))])
        return self.series(depth)

    def make_defs(self, n):
        for i in range(n):
            name = "D%d%s" % (i, self.rng.choice(["", "x", "_y", "-z"]))
            node = self.regex(1)
            self.defs.append((name, node))

    # ----------------------------------------------------------------- sampling
    def sample(self, node, ctx, ci=None, dotall=False, depth=0):
        """A random member of the node's language (or None if none is easy to find)."""
        rng = self.rng
        if ci is None:
            ci = ctx.ci
        k = node[0]
        if k == "chr":
            c = node[1]
            if ci and pat.has_case(c) and rng.chance(50):
                c = pat.rev_case(c)
            return bytes([c])
        if k == "dot":
            cs = [c for c in self.alpha if c != 10 or dotall] or [97]
            return bytes([rng.choice(cs)])
        if k in ("ccl", "cclop"):
            s = pat.ccl_set(node, ci, ctx)
            if not s:
                return None
            pref = [c for c in self.alpha_ci if c in s]
            if pref and rng.chance(80):
                return bytes([rng.choice(pref)])
            l = sorted(s)
            return bytes([l[rng.below(len(l))]])
        if k == "str":
            out = bytearray()
            for c in node[1]:
                if ci and pat.has_case(c) and rng.chance(50):
                    c = pat.rev_case(c)
                out.append(c)
            return bytes(out)
        if k == "cat":
            out = b""
            for ch in node[1]:
                s = self.sample(ch, ctx, ci, dotall, depth + 1)
                if s is None:
                    return None
                out += s
            return out
        if k == "alt":
            order = list(node[1])
            rng.shuffle(order)
            for ch in order:
                s = self.sample(ch, ctx, ci, dotall, depth + 1)
                if s is not None:
                    return s
            return None
        if k in ("star", "plus", "opt", "rep"):
            if k == "star":
                n = rng.rint(0, 3)
            elif k == "plus":
                n = rng.rint(1, 3)
            elif k == "opt":
                n = rng.rint(0, 1)
            else:
                lo, hi, form = node[2], node[3], node[4]
                if form == "exact":
                    n = lo
                elif form == "min":
                    n = lo + rng.rint(0, 2)
                else:
                    n = rng.rint(lo, hi)
            out = b""
            for _ in range(n):
                s = self.sample(node[1], ctx, ci, dotall, depth + 1)
                if s is None:
                    return None if n > 0 and k in ("plus", "rep") and not out else out
                out += s
            return out
        if k == "prep":
            nodes, lo, hi, form = node[1], node[2], node[3], node[4]
            if ctx.posix or ctx.lex:
                return self.sample(("rep", ("cat", list(nodes)), lo, hi, form), ctx, ci, dotall,
                                   depth + 1)
            return self.sample(("cat", list(nodes[:-1]) + [("rep", nodes[-1], lo, hi, form)]),
                               ctx, ci, dotall, depth + 1)
        if k == "grp":
            on, off = node[2], node[3]
            nci, nda = ci, dotall
            if on:
                nci = nci or "i" in on
                nda = nda or "s" in on
            if off:
                if "i" in off:
                    nci = False
                if "s" in off:
                    nda = False
            return self.sample(node[1], ctx, nci, nda, depth + 1)
        if k == "ref":
            if depth > 40:
                return None
            return self.sample(ctx.defs[node[1]], ctx, ci, dotall, depth + 1)
        raise ValueError(node)

    def mutate(self, s):
        rng = self.rng
        if not s:
            return bytes([self.byte()])
        b = bytearray(s)
        t = rng.below(4)
        i = rng.below(len(b))
        if t == 0:
            del b[i]
        elif t == 1:
            b[i] = self.alpha[rng.below(len(self.alpha))]
        elif t == 2:
            b.insert(i, self.alpha[rng.below(len(self.alpha))])
        else:
            b[i] = (b[i] + 1) % self.csize
            if self.p.get("no_nul") and b[i] == 0:
                b[i] = 1
        return bytes(b)

    def make_input(self, case, ctx, maxlen=120, nparts=None):
        """Concatenation of rule samples, near misses and alphabet noise."""
        rng = self.rng
        out = bytearray()
        rules = case["rules"]
        nparts = nparts or rng.rint(2, 10)
        for _ in range(nparts):
            t = rng.below(10)
            if t < 6 and rules:
                r = rng.choice(rules)
                s = self.sample(r["pat"], ctx)
                if s is not None and r.get("trail") is not None:
                    t2 = self.sample(r["trail"], ctx)
                    if t2 is not None and rng.chance(80):
                        s += t2
                if s is None:
                    s = bytes([self.byte()])
                if rng.chance(25):
                    s = self.mutate(s)
                out += s
            elif t < 9:
                out += bytes(self.alpha[rng.below(len(self.alpha))]
                             for _ in range(rng.rint(1, 4)))
            else:
                out += b"\n"
            if len(out) >= maxlen:
                break
        if self.csize == 128:
            out = bytearray(c & 0x7F for c in out)
        if self.p.get("no_nul"):
            out = bytearray(c or 1 for c in out)
        return bytes(out[:maxlen])

    # ----------------------------------------------------------------- rule sets
    def make_case(self, seed32, nrules=None):
        rng, p = self.rng, self.p
        opts = {"bits": p.get("bits", 8)}
        if p.get("ci"):
            opts["ci"] = True
        if p.get("posix"):
            opts["posix"] = True
        scs = [("INITIAL", False)]
        for i in range(p.get("scs", 0)):
            scs.append(("S%d" % i, rng.chance(50)))
        if self.has("refs"):
            self.make_defs(rng.rint(0, 3))
        n = nrules or rng.rint(*p["nrules"])
        rules = []
        for i in range(n):
            r = {"scs": None, "bol": False, "pat": self.regex(p["depth"]), "trail": None,
                 "act": []}
            if len(scs) > 1:
                t = rng.below(10)
                if t < 4:
                    k = rng.rint(1, min(3, len(scs)))
                    r["scs"] = sorted(rng.sample(range(len(scs)), k))
                elif t < 5:
                    r["scs"] = "*"
            if rng.chance(p.get("bol", 0)):
                r["bol"] = True
            if rng.chance(p.get("trail", 0)):
                if rng.chance(30):
                    r["trail"] = ("chr", 10)
                    r["dollar"] = True
                else:
                    r["trail"] = self.series(1)
            rules.append(r)
        for i in range(n - 1):
            if rng.chance(p.get("bar", 0)):
                rules[i]["act"] = "|"
        case = {"seed": seed32 & util.M32, "opts": opts, "scs": scs,
                "defs": list(self.defs), "rules": rules, "eofs": [], "sources": [b""],
                "strings": [], "wrap": [], "driver": {}, "budget": {"events": 600}}
        return case


def ctx_of(case):
    o = case["opts"]
    return pat.Ctx(csize=128 if o.get("bits") == 7 else 256, ci=bool(o.get("ci")),
                   posix=bool(o.get("posix")), lex=bool(o.get("lex")),
                   defs=dict(case.get("defs", [])))
