"""C05 -- see DESIGN.md section 4 (C05); job maker in tokens.py."""
from .. import common
from . import lib, tokens


def run(pid, tier):
    chk = common.Check(pid, tier)
    n = 70 if tier == "quick" else 1200
    chk.rule = RULE
    lib.explore(chk, range(n), tokens.c05_job)
    for k, m in REQUIRED.items():
        chk.require(k, m)
    return chk


def replay(d):
    return lib.replay(d)


RULE = ("case = 1-60 start conditions (inclusive/exclusive), rules attached by list, <*>, "
        "none and nested scopes; actions and driver use yybegin/push/pop/top; the driver "
        "walks through every condition and feeds probe strings of every rule")
REQUIRED = {"scs>40": 1, "underflow": 1, "stack_depth_1": 1, "stack_depth_2": 1,
            "stack_used_before_first_yylex": 5}
