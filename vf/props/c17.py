"""C17 -- 'rule cannot be matched' / default-rule warnings against reachability computed on
the independent model automaton, with execution witnesses through the real scanner."""
import os, re
from .. import common, util, gen, pat, scripts, stream, runner, model, emit, known
from . import lib, tokens

RULE = ("case = rule set built to contain shadowed rules (duplicates, sub-languages, rules "
        "shadowed only in some start conditions or only at BOL, through case-insensitivity, "
        "trailing-context totals equal to another rule), with and without -s; oracle = "
        "exhaustive exploration of the model's subset automaton per (start condition, BOL): "
        "rule useful iff some reachable state has it as first accepting rule; every rule flex "
        "does not warn about is additionally confirmed by running a witness string through the "
        "generated scanner (for witnesses that start a buffer); -w must not change the scanner")


def byte_classes(aut):
    """Partition of 0..255 by membership in every edge set of the automaton's NFA."""
    sig = [0] * 256
    seen = {}
    nxt = 1
    sets = set()
    for edges in aut.nfa.edges:
        for cs, _ in edges:
            sets.add(cs)
    key = [[] for _ in range(256)]
    for idx, cs in enumerate(sets):
        for c in cs:
            key[c].append(idx)
    reps = {}
    for c in range(256):
        k = tuple(key[c])
        if k not in reps:
            reps[k] = c
    return sorted(reps.values())


def explore(aut, limit=20000):
    """All reachable states; returns {rule index: witness bytes} for rules that are the
    first accepting rule of some state, and {rule: witness} for rules appearing anywhere."""
    reps = byte_classes(aut)
    first = {}
    anyw = {}
    start = aut.start
    path = {start: b""}
    todo = [start]
    n = 0
    while todo:
        st = todo.pop(0)
        n += 1
        if n > limit:
            return None, None
        acc = aut.accl[st]
        w = path[st]
        if acc and len(w) > 0:
            first.setdefault(acc[0], w)
            for r in acc:
                anyw.setdefault(r, w)
        for c in reps:
            t = aut.step(st, c)
            if t >= 0 and t not in path:
                path[t] = w + bytes([c])
                todo.append(t)
    return first, anyw


def syn_var(node, ctx, depth=0):
    """flex's syntactic notion of a variable-length pattern: any |, *, +, ?, {..} anywhere."""
    k = node[0]
    if k in ("alt", "star", "plus", "opt", "rep", "prep"):
        return True
    if k == "cat":
        return any(syn_var(c, ctx, depth + 1) for c in node[1])
    if k == "grp":
        return syn_var(node[1], ctx, depth + 1)
    if k == "ref":
        return depth < 40 and syn_var(ctx.defs[node[1]], ctx, depth + 1)
    return False


def make_case(chk, rng, i):
    p = gen.default_profile()
    p["nrules"] = (2, 7)
    p["depth"] = 2
    p["scs"] = rng.choice([0, 0, 1, 2])
    multi_eof = (i % 4 == 2)
    if multi_eof:
        p["scs"] = rng.choice([1, 2])
    if i % 4 == 1 and p["scs"] == 0:
        p["scs"] = 1            # (the two-warnings rule below needs a start condition)
    p["bol"] = 20
    p["trail"] = 10 if i % 4 != 3 else 35
    p["ci"] = (i % 6 == 5)
    p["avoid"] = set(chk.avoid)
    g = gen.Gen(rng, p)
    case = g.make_case(rng.u64() & util.M32)
    rules = case["rules"]
    if i % 3 == 1:
        # a trailing-context rule with a fixed-length head and a variable-length trail, placed
        # after a rule with a closure: flex may use the REJECT machinery (and give up exact
        # warnings) only for rules whose head AND trail are variable
        rules.append({"scs": None, "bol": False,
                      "pat": ("cat", [("chr", rng.choice(b"#%")), ("chr", rng.choice(b"ab"))]),
                      "trail": ("plus", ("ccl", False, [("r", 48, 57)])), "act": []})
        rules.insert(0, {"scs": None, "bol": False, "pat": ("plus", ("chr", rng.choice(b"xy"))),
                         "trail": None, "act": []})
    # shadowed rules
    for k in range(rng.rint(1, 4)):
        src = rng.choice(rules)
        t = rng.below(5)
        r = {"scs": src["scs"], "bol": src["bol"], "pat": src["pat"], "trail": src.get("trail"),
             "dollar": src.get("dollar"), "act": []}
        if t == 0:
            pass                                # exact duplicate, later in the file
        elif t == 1:
            r["scs"] = None                     # duplicate shadowed only in some conditions
        elif t == 2:
            r["bol"] = not src["bol"]           # shadowed only at BOL / only off BOL
        elif t == 3:
            s = g.sample(src["pat"], gen.ctx_of(case))
            if s:
                r = {"scs": src["scs"], "bol": src["bol"], "pat": pat.lit(s), "trail": None,
                     "act": []}               # sub-language: one member of an earlier rule
        else:
            r["pat"] = ("alt", [src["pat"], g.series(1)])    # super-language: partly useful
        pos = rng.rint(rules.index(src) + 1, len(rules)) if t != 4 else rng.below(len(rules) + 1)
        rules.insert(pos, r)
    if multi_eof:
        # several <<EOF>> rules: they are rules without a pattern and flex numbers them apart
        # from the others; the warnings for the pattern rules must not depend on them
        nsc = 1 + p["scs"]
        case["eofs"] = [{"scs": [rng.rint(1, nsc - 1)], "act": [("term",)]},
                        {"scs": None, "act": [("term",)]}]
        if nsc > 2 and rng.chance(50):
            case["eofs"].insert(0, {"scs": [0], "act": [("term",)]})
    if len(case["scs"]) > 1 and i % 4 == 1:
        # a rule that draws another warning on its own line (its start condition is listed
        # twice) and can never be matched as well: both warnings are due
        sc = rng.rint(1, len(case["scs"]) - 1)
        word = pat.lit(bytes(rng.choice(b"zqj") for _ in range(3)))
        rules.append({"scs": [sc], "bol": False, "pat": word, "trail": None, "act": []})
        rules.append({"scs": [sc, sc], "bol": False, "pat": word, "trail": None, "act": []})
    nodefault = (i % 3 == 0)
    if nodefault:
        case["opts"]["nodefault"] = True
        if rng.chance(50):
            # full coverage of the byte alphabet in every condition
            rules.append({"scs": "*", "bol": False, "pat": ("alt", [("dot",), ("chr", 10)]),
                          "trail": None, "act": []})
    uses_reject = (i % 5 == 4)
    if uses_reject:
        rules[0]["act"] = [("if", 1, 100, 50, [("reject",)])]
        case["opts"]["uses_reject"] = True
    # some rules get a '|' action (same action as the next rule); the warning for such a rule
    # must still name its own line.  Not next to trailing context ('|' makes it variable).
    for k in range(len(rules) - 1):
        if rules[k].get("trail") is None and rules[k + 1].get("trail") is None and \
                rules[k]["act"] == [] and rng.chance(25):
            rules[k]["act"] = "|"
    return g, case


def worker(args):
    chk, i = args
    rng = chk.rng("case", i)
    g, case = make_case(chk, rng, i)
    case["driver"] = {"init": [("open", 0), ("begin_param",)]}
    flex = chk.flex("san")
    wd = os.path.join(chk.scratch.path, "c%d" % i)
    out = {"i": i, "problems": [], "feats": {}, "skipped": None, "runs": 0}

    def feat(k, n=1):
        out["feats"][k] = out["feats"].get(k, 0) + n
    nrules = len(case["rules"])
    fl = ["nr", "r", "c99"][i % 3]
    em = emit.Emitter(case, fl, util.Rng(case["seed"], "emit"))
    spec_text = em.spec()
    rule_line = {}
    for ri in range(nrules):
        rule_line[em.rule_last_line[ri]] = ri
    e2 = emit.Emitter(case, fl, None)
    texts = [e2.rule_text(r) for r in case["rules"]]
    if len(rule_line) != nrules:
        out["skipped"] = "cannot map rule lines"
        return out
    # the warnings come out of the subset construction, which runs differently for the full and
    # fast representations (no end-of-buffer state for -CF, NUL handling): rotate them
    tb = ["", "-Cem", "-CF", "-Cf", "-C", "-CFe", "-Cfe", "-Ca"][(i // 3) % 8]
    targs = lib.tables_args(tb, 8)
    b = runner.build_scanner(flex, case, fl, wd, targs, "san", None, spec_text=spec_text)
    if not b.ok and b.stage == "flex" and targs and ("cannot be used with -f or -F" in b.warnings or
                                                      "variable trailing context rules cannot be used" in b.warnings):
        # documented refusal (REJECT / variable trailing context with full tables)
        feat("tables_refused_fallback")
        tb, targs = "", ()
        b = runner.build_scanner(flex, case, fl, wd, targs, "san", None, spec_text=spec_text)
    feat("tables:" + (tb or "default"))
    if not b.ok:
        if b.stage == "flex" and b.flex.timed_out:
            out["skipped"] = "flex watchdog"
            return out
        out["problems"].append(("build:" + b.stage, b.describe(), b, None))
        return out
    warn = b.warnings
    if "dangerous trailing context" in warn:
        feat("dangerous_skipped")
    warned = set()
    for m in re.finditer(r":(\d+): warning, rule cannot be matched", warn):
        l = int(m.group(1))
        if l in rule_line:
            warned.add(rule_line[l])
        else:
            out["problems"].append(("warning-line", "warning at line %d which is not the line of "
                                    "a rule: %s" % (l, warn[-500:]), b, None))
    dflt_warn = "-s option given but default rule can be matched" in warn
    ctx0 = gen.ctx_of(case)
    var_trail = "variable trailing context" in warn or any(
        r.get("trail") is not None and not r.get("dollar") and syn_var(r["pat"], ctx0) and
        syn_var(r["trail"], ctx0) for r in case["rules"])
    relaxed = bool(case["opts"].get("uses_reject")) or var_trail
    acase = dict(case)
    acase["opts"] = dict(case["opts"])
    acase["opts"]["nodefault"] = False      # reachability of the default rule itself
    rs = model.RuleSet(acase)
    useful_first = {}
    useful_any = {}
    empty_first = {}        # rule -> (sc, bol): first accepting rule of a start state (empty match)
    too_big = False
    rs_real = model.RuleSet(case) if case["opts"].get("nodefault") else None
    for sc in range(len(case["scs"])):
        for bol in (True, False):
            aut = rs.aut(sc, bol)
            a0 = aut.accl[aut.start]
            if a0:
                empty_first.setdefault(a0[0], (sc, bol))
                if rs_real is not None:
                    # without a default rule the empty match is really selected when the scan
                    # dies before reaching any accepting state
                    ra = rs_real.aut(sc, bol)
                    r0 = ra.accl[ra.start]
                    if r0 and r0[0] == a0[0]:
                        for c in byte_classes(ra):
                            t = ra.step(ra.start, c)
                            if t < 0 or not ra.accl[t]:
                                useful_first.setdefault(a0[0], (sc, bol, b""))
                                useful_any.setdefault(a0[0], (sc, bol, b""))
                                break
            f, a = explore(aut)
            if f is None:
                too_big = True
                break
            for r, w in f.items():
                useful_first.setdefault(r, (sc, bol, w))
            for r, w in a.items():
                useful_any.setdefault(r, (sc, bol, w))
    if too_big:
        out["skipped"] = "automaton too large"
        return out
    out["runs"] += 1
    feat("rules", nrules)
    for ri in range(nrules):
        uf = ri in useful_first
        ua = ri in useful_any
        w = ri in warned
        if w:
            feat("warned")
        else:
            feat("unwarned")
        if w and ua and relaxed:
            out["problems"].append(("false-warning", "rule %d (%s) warned 'cannot be matched' but "
                                    "matches %r in condition %d" % (
                                        ri + 1, texts[ri], useful_any[ri][2], useful_any[ri][0]),
                                    b, None))
        elif w and uf:
            out["problems"].append(("false-warning", "rule %d (%s) warned 'cannot be matched' but "
                                    "is selected on %r in condition %d bol=%s" % (
                                        ri + 1, texts[ri], useful_first[ri][2], useful_first[ri][0],
                                        useful_first[ri][1]), b, None))
        elif not w and not uf and not relaxed:
            if ri in empty_first and case["opts"].get("nodefault"):
                # known finding K02 (only with the default rule suppressed, see F55): the rule
                # wins only the empty match at a start state
                out["problems"].append(("missing-warning-empty", "rule %d (%s) only ever wins with "
                                        "the empty match at the start state of condition %d, which "
                                        "a longer match always beats; flex is silent" % (
                                            ri + 1, texts[ri], empty_first[ri][0]), b, None))
            else:
                out["problems"].append(("missing-warning", "rule %d (%s) can never be selected but "
                                        "flex is silent" % (ri + 1, texts[ri]), b, None))
        if not uf:
            feat("model_unmatchable")
    if case["opts"].get("nodefault"):
        du = nrules in useful_first
        feat("nodefault_cases")
        if du:
            feat("default_reachable")
        else:
            feat("default_unreachable")
        if dflt_warn != du and not relaxed:
            out["problems"].append(("default-warning", "-s: flex %s the default rule can be "
                                    "matched, model says it %s (witness %r)" % (
                                        "warns" if dflt_warn else "does not warn",
                                        "can" if du else "cannot",
                                        useful_first.get(nrules)), b, None))
        if dflt_warn and not du and relaxed:
            out["problems"].append(("default-warning", "-s: false warning", b, None))
    # execution witnesses: rules not warned about, reachable from the start of a buffer
    nwit = 0
    for ri, (sc, bol, w) in sorted(useful_first.items()):
        if ri >= nrules or ri in warned or not bol or nwit >= 4 or not w:
            continue
        if "dangerous trailing context" in warn and case["rules"][ri].get("trail") is not None:
            continue
        if case["rules"][ri]["act"] == "|":
            continue
        c2 = dict(case)
        c2["sources"] = [w]
        c2["param"] = sc
        ro = runner.run_scanner(b, c2, wd, tag="w%d" % ri, bufsize=sc)
        out["runs"] += 1
        nwit += 1
        fired = [l.split() for l in ro.log.splitlines() if l.startswith("T ")]
        ok, info = model.check(c2, ro.log, None)
        if not ok and "dangerous trailing context" in warn:
            # the stream after the first token may run (through REJECT or a later match) into
            # the rule flex has just said it cannot split correctly; the manual exempts that,
            # so only the first selection is compared below
            ok = True
            feat("witness_first_token_only")
        if ro.kind not in ("ok", "fatal") or not ok:
            out["problems"].append(("witness-run", "witness %r for rule %d: %s %s" % (
                w, ri + 1, ro.kind, info if not ok else ro.detail[:500]), b, ro))
        elif not fired or int(fired[0][1]) != ri + 1:
            out["problems"].append(("witness", "witness %r in condition %d should select rule %d "
                                    "but the scanner fired %s" % (w, sc, ri + 1, fired[:2]), b, ro))
        else:
            feat("witness_confirmed")
    # -w must not change the generated scanner
    if i % 4 == 0:
        o2 = os.path.join(wd, "w.c")
        cmd, r = runner.flex_generate(flex, b.spec, o2, tuple(targs) + ("-w",), cwd=wd)
        o1 = os.path.join(wd, "s.c")
        if r.rc != 0:
            out["problems"].append(("-w", "flex -w failed: %s" % r.err[-300:], b, None))
        else:
            a = util.read(o1, True).replace(b"s.c", b"X.c")
            bb = util.read(o2, True).replace(b"w.c", b"X.c")
            if a != bb:
                out["problems"].append(("-w", "-w changes the generated scanner", b, None))
            elif b"cannot be matched" in r.err:
                out["problems"].append(("-w", "-w did not suppress the warning", b, None))
            else:
                feat("w_identical")
    out["sample"] = {"rules": texts[:6], "warned": sorted(x + 1 for x in warned),
                     "model_unmatchable": sorted(r + 1 for r in range(nrules)
                                                 if r not in useful_first)}
    out["case"] = case
    return out


def run(pid, tier):
    chk = common.Check(pid, tier)
    chk.rule = RULE
    known.replay_known(chk)
    n = 160 if tier == "quick" else 4000
    for o in util.pmap(worker, [(chk, i) for i in range(n)]):
        if o["skipped"]:
            chk.inconc("case %d: %s" % (o["i"], o["skipped"]))
            continue
        chk.count(o["runs"])
        chk.feat(o["feats"])
        chk.nontriv("case%d" % o["i"])
        if "sample" in o:
            chk.sample(o["sample"])
        for kind, what, b, ro in o["problems"]:
            def save(d, b=b, ro=ro, o=o):
                runner.save_replay(d, b, o.get("case") or {}, ro, {"problem": kind})
            chk.violation("case %d: %s: %s" % (o["i"], kind, what), {"kind": kind}, save)
    for k in ("warned", "unwarned", "model_unmatchable", "witness_confirmed", "w_identical",
              "default_reachable", "default_unreachable"):
        chk.require(k)
    return chk


def replay(d):
    print("replay: re-run the check; cases are regenerated from (seed, index)")
    return 2
