"""C01 -- longest match / first rule / pattern language against the reference model."""
import os
from .. import util, common, gen, pat, stream, model, known

FLAVOURS = ["nr", "r", "c99"]
TABLES = [(), (), ("-Cem",), ("-Ce",), ("-Cm",), ("-C",), ("-Cfe",), ("-CFe",), ("-Cfa",), ("-Ca",)]


def make_profile(chk, rng, i):
    p = gen.default_profile()
    p["avoid"] = set(chk.avoid)
    p["nrules"] = (1, 12)
    p["scs"] = rng.choice([0, 0, 0, 1, 2])
    p["bol"] = rng.choice([0, 0, 10, 25])
    t = rng.below(10)
    if t == 0:
        p["ci"] = True
    if t == 1:
        p["posix"] = True
        p["features"] = p["features"] - {"flags"}
    if t == 2:
        p["extra_alpha"] = b"\x00\x80\xff"
    if t == 3:
        p["bits"] = 7
    return p


def one_case(args):
    chk, i, ninputs, large = args
    rng = chk.rng("case", i)
    p = make_profile(chk, rng, i)
    g = gen.Gen(rng, p)
    seed32 = rng.u64() & util.M32
    if large:
        case = large_case(g, rng, seed32)
    else:
        case = g.make_case(seed32)
    ctx = gen.ctx_of(case)
    # start conditions: the driver walks through them so that every condition is scanned
    nsc = len(case["scs"])
    if nsc > 1:
        case["driver"] = {"after": [[("begin", k % nsc)] for k in range(nsc)]}
        # a rule that returns, so the driver gets control
        for r in case["rules"]:
            if r["act"] != "|" and rng.chance(40):
                r["act"] = [("ret", 7)]
    inputs = []
    for k in range(ninputs):
        inputs.append({"sources": [g.make_input(case, ctx, maxlen=160 if not large else 400)],
                       "sched": [0]})
    fl = FLAVOURS[i % len(FLAVOURS)]
    tb = TABLES[(i // 3) % len(TABLES)]
    if case["opts"].get("bits") != 7 and tb and tb[0] in ("-Cfe", "-CFe", "-Cfa"):
        tb = tb + ("-8",)      # full tables default to 7 bits
    cfg = {"flavour": fl, "flexargs": tuple(tb) + (("-v",) if large else ())}
    wd = os.path.join(chk.scratch.path, "c%d" % i)
    res = stream.run_case(chk.flex("san"), case, [cfg], inputs, wd)
    kinds = set()
    for r in case["rules"]:
        pat.node_kinds(r["pat"], kinds)
    return i, case, cfg, res, kinds


def large_case(g, rng, seed32):
    """Rule set big enough to outgrow the generator's initial allocations (NFA and DFA
    states, rules, start conditions, character classes and their table, nxt/chk and
    template pairs) while staying cheap to build: keyword-like rules, no unbounded dots."""
    g.p["features"] = g.p["features"] - {"dot", "closure"}
    case = g.make_case(seed32, nrules=1)
    case["rules"] = []
    case["defs"] = []
    al = b"abcdef01"
    for k in range(rng.rint(380, 460)):
        word = bytes(al[rng.below(len(al))] for _ in range(rng.rint(3, 9)))
        node = pat.lit(word)
        t = rng.below(6)
        if t == 0:
            node = ("cat", [g.ccl_node(), node])
        elif t == 1:
            node = ("cat", [node, g.ccl_node(), ("opt", pat.lit(b"zz"))])
        elif t == 2:
            node = ("cat", [node, ("rep", g.ccl_node(), 1, 3, "range")])
        case["rules"].append({"scs": None, "bol": False, "pat": node, "trail": None, "act": []})
    case["scs"] = [("INITIAL", False)] + [("S%d" % i, i % 2 == 0) for i in range(45)]
    for r in case["rules"][:80]:
        r["scs"] = sorted(rng.sample(range(46), 3))
    return case


def run(pid, tier):
    chk = common.Check(pid, tier)
    known.replay_known(chk)
    chk.rule = ("case = random rule set (1-12 rules, or a 'large' profile) printed in random "
                "documented spellings + model-guided inputs; evaluation = one scanner run "
                "co-simulated with the reference model; non-trivial = run with >= 3 events; "
                "distinct by (spec, input, configuration)")
    n_small, n_large, ninputs = (120, 2, 40) if tier == "quick" else (2500, 30, 80)
    chk.flex("san")
    jobs = [(chk, i, ninputs, False) for i in range(n_small)]
    jobs += [(chk, 100000 + i, 12, True) for i in range(n_large)]
    allkinds = set()
    for i, case, cfg, res, kinds in util.pmap(one_case, jobs):
        chk.count(res.runs)
        chk.feat(res.features)
        allkinds |= kinds
        chk.feat1("builds", res.builds)
        chk.feat1("events", res.events)
        for ii in range(res.runs):
            chk.nontriv("%d/%d" % (i, ii))
        if i >= 100000:
            w = "".join(res.flex_warnings.values())
            import re
            m = re.search(r"(\d+) sets of reallocations needed", w)
            if m and int(m.group(1)) > 0:
                chk.feat1("large_profile_reallocs", int(m.group(1)))
            chk.extra.setdefault("large_profiles", []).append(
                [l.strip() for l in w.splitlines() if "realloc" in l or "NFA states" in l
                 or "DFA states" in l or "rules" in l][:6])
        for w in res.inconclusive:
            chk.inconc("case %d: %s" % (i, w))
        for p in res.problems:
            sig = {"kind": p["kind"]}
            chk.violation("case %d cfg %s: %s: %s" % (i, stream.cfg_tag(cfg), p["kind"], p["what"]),
                          sig, stream.save_problem(p))
        if len(chk.samples) < 4 and res.runs:
            chk.sample({"case": i, "config": stream.cfg_tag(cfg),
                        "rules": [stream.emit.Emitter(case, cfg["flavour"]).rule_text(r)
                                  for r in case["rules"][:6]],
                        "runs": res.runs, "events": res.events})
    for k in sorted(allkinds):
        chk.feat1("node:" + k)
    chk.require("default_rule")
    chk.require("large_profile_reallocs")
    for k in ("node:chr", "node:dot", "node:ccl", "node:cclop", "node:str", "node:alt",
              "node:star", "node:plus", "node:opt", "node:rep", "node:grp", "node:ref"):
        chk.require(k)
    return chk
