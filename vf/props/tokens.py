"""Job makers for the event-stream properties C04-C09 (C01 has its own module)."""
import os
from .. import util, gen, pat, scripts, stream, model
from . import lib

FLAV3 = ["nr", "r", "c99"]
TABLES8 = ["", "-C", "-Ce", "-Cm", "-Cem", "-Cf", "-Cfe", "-CF", "-CFe", "-Ca", "-Cfa", "-Cae"]


def dangerous(cfg, built):
    if "dangerous trailing context" in built.warnings:
        return "dangerous_trailing_context"
    return None


def std_refusals(tb):
    """Documented refusals of full/fast tables: variable trailing context, REJECT."""
    def expect_build(cfg, built):
        if built.stage == "flex" and ("f" in tb or "F" in tb) and built.flex.rc == 1:
            w = built.warnings
            return ("variable trailing context rules cannot be used" in w or
                    "cannot be used with -f or -F" in w or
                    "yylineno cannot be used with REJECT" in w)
        return False
    return expect_build


def base_case(chk, rng, prof):
    prof["avoid"] = set(prof.get("avoid", set())) | set(chk.avoid)
    g = gen.Gen(rng, prof)
    case = g.make_case(rng.u64() & util.M32)
    return g, case


def rotate(i, seq):
    return seq[i % len(seq)]


def flavour4(i, tb=""):
    """Flavour rotation of the makers whose operations the C++ driver offers as well: every
    seventh case goes through the C++ scanner class (except with -CF, which flex documents
    as unusable with -+)."""
    if i % 7 == 6 and "F" not in tb:
        return "cxx"
    return FLAV3[i % len(FLAV3)]


def shared_nul_class(g, case, variant):
    """Rule set in which NUL shares its equivalence class with other bytes (the high half of
    the alphabet) and the number of classes is 2 or 4: whether NUL gets a transition table of
    its own under -Cfe depends on exactly that."""
    hi = ("plus", ("ccl", False, [("r", 128, 255), ("c", 0)]))
    if variant == 0:
        rs_ = [("plus", ("ccl", False, [("r", 1, 127)])), hi]
    else:
        rs_ = [("plus", ("ccl", False, [("r", 97, 109)])), ("plus", ("ccl", False, [("r", 110, 122)])),
               hi, ("plus", ("ccl", False, [("r", 1, 96), ("r", 123, 127)]))]
    case["rules"] = [{"scs": None, "bol": False, "pat": x, "trail": None, "act": []} for x in rs_]
    case["defs"] = []
    g.alpha = b"amnz \n\x00\x80\xe9\xff\x00\x90"


# ---------------------------------------------------------------------------- C04
def c04_job(chk, rng, i):
    p = gen.default_profile()
    p["nrules"] = (1, 7)
    p["depth"] = 2
    kind = i % 4
    if kind == 3:
        p["bits"] = 7
        p["extra_alpha"] = b"\x00\x7f\x01"
    else:
        p["extra_alpha"] = b"\x00\x00\x80\xff" if kind != 2 else b""
    p["trail"] = 10
    g, case = base_case(chk, rng, p)
    if kind == 2:
        # rule set that never mentions NUL / high bytes; the input still contains them
        g.alpha = bytes(p["alpha"]) + b"\x00\x80\xff"
    if kind != 2 and rng.chance(60):
        # classes that list NUL explicitly, negated and not, at a seeded place in the rule list
        a = rng.choice(p["alpha"])
        for neg in ([True, False] if rng.chance(50) else [True]):
            pat = ("ccl", neg, [("c", 0), ("c", a)] if neg else [("c", 0), ("r", a, min(a + 2, 127))])
            if rng.chance(70):
                pat = ("plus", pat)
            case["rules"].insert(rng.below(len(case["rules"]) + 1),
                                 {"scs": None, "bol": False, "pat": pat, "trail": None, "act": []})
    shared = (i % 8 == 5)
    if shared:
        shared_nul_class(g, case, (i // 8) % 2)
    f = {"ret": 20, "less": 15, "unput": 10, "unput_alpha": b"a\x00b\x00", "input": 10}
    if any(r.get("bol") for r in case["rules"]):
        f = {"ret": 20}
    scripts.decorate(case, rng, f)
    ctx = gen.ctx_of(case)
    inputs = []
    for k in range(10):
        s = bytearray(g.make_input(case, ctx, maxlen=60))
        if shared:
            s += bytes(rng.choice(b"\x80\xe9\xff\x00") for _ in range(rng.rint(2, 6))) + b"am"
        # NULs at chosen places: runs, start, end, before EOF
        for _ in range(rng.rint(1, 4)):
            pos = rng.below(len(s) + 1)
            s[pos:pos] = b"\x00" * rng.choice([1, 1, 2, 3])
        if rng.chance(30):
            s += b"\x00"
        if p["bits"] == 7:
            s = bytearray(c & 0x7F for c in s)
        sched = rng.choice([[1], [1], [2], [3, 1], [0], [1, 2, 3, 4]])
        inputs.append({"sources": [bytes(s)], "sched": sched})
    tb = rotate(i // 4, TABLES8)
    if shared:
        tb = rotate(i // 16, ["-Cfe", "-Cm", "-Cem", "-CFe", "-C", "-Ce"])
    inter = rotate(i // 2, [None, True, False])
    if ("f" in tb or "F" in tb) and inter is True:
        inter = False       # documented: -Cf/-CF cannot be interactive
    fl = flavour4(i, tb)
    # %array: the token is copied into yytext[], NUL bytes included
    array = (i % 5 in (1, 3))
    fargs = lib.tables_args(tb, p["bits"])
    feats = []
    if "e" in tb and ("f" in tb or "F" in tb) and p["bits"] == 8 and (i // 12) % 2 == 0:
        # full tables with equivalence classes: the manual says these still default to an
        # 8-bit scanner, so -8 is left to flex
        fargs = tuple(a for a in fargs if a != "-8")
        feats.append("full_ecs_default_8bit")
    cfg = {"flavour": fl, "flexargs": fargs,
           "opts": {"interactive": inter, "array": array}}
    if fl == "cxx" and (i // 7) % 2 == 0:
        # the C++ class reads through its own LexerInput() from a std::istream
        cfg["opts"]["cxx_stream"] = True
        feats.append("cxx_own_lexerinput:" + str(inter))
    feats += ["tables:" + (tb or "default"), "mode:" + str(inter), "bits:%d" % p["bits"],
              "array" if array else "pointer"]
    return {"case": case, "configs": [cfg], "inputs": inputs, "skip_if": dangerous,
            "features": feats, "expect_build": std_refusals(tb)}


# ---------------------------------------------------------------------------- C05
def c05_job(chk, rng, i):
    p = gen.default_profile()
    p["nrules"] = (3, 14)
    p["depth"] = 1
    p["features"] = {"ccl", "str", "alt", "closure", "grp"}
    big = (i % 9 == 8)
    p["scs"] = rng.rint(41, 60) if big else rng.rint(1, 6)
    p["bol"] = 25
    g, case = base_case(chk, rng, p)
    nsc = len(case["scs"])
    # scopes: group some consecutive rules under <list>{ }, nested up to 3 deep
    rules = case["rules"]
    for r in rules:
        r["scs_own"] = r["scs"]

    def union(a, b):
        if a is None:
            return b
        if b is None:
            return a
        if a == "*" or b == "*":
            return "*"
        return sorted(set(a) | set(b))

    def build(lo, hi, depth, inherited):
        items = []
        j = lo
        while j < hi:
            if depth < 3 and hi - j >= 2 and rng.chance(30):
                span = rng.rint(2, min(5, hi - j))
                sl = sorted(rng.sample(range(nsc), rng.rint(1, min(3, nsc))))
                inh = union(inherited, sl)
                sub = build(j, j + span, depth + 1, inh)
                items.append(("scope", sl, sub))
                j += span
            else:
                r = rules[j]
                if inherited is not None:
                    if rng.chance(12):
                        r["scs_own"] = "*"      # <*> inside a scope: every condition
                    r["scs"] = union(inherited, r["scs_own"])
                items.append(j)
                j += 1
        return items
    case["layout"] = build(0, len(rules), 0, None)
    # '|' actions inside scopes are fine, but keep them out of scope boundaries
    for r in rules:
        if r["act"] == "|":
            r["act"] = []
    f = {"ret": 35, "begin": 40, "push": 45 if not big else 60, "pop": 30, "top": 30,
         "pop_pct": 25}
    scripts.decorate(case, rng, f)
    scripts.driver_walk_scs(case, rng)
    # a start condition chosen before the very first call of yylex() (and, in the second
    # session of C13, before the first call after yylex_destroy) must be honoured
    feats0 = []
    if nsc > 1 and rng.chance(60):
        case["driver"]["init"] = [("open", 0), ("begin", rng.below(nsc))]
    if i % 3 == 1:
        # the stack is used (and the current condition read) before yylex() has ever run
        case["driver"]["init"] = list(case["driver"].get("init", [("open", 0)])) + [
            ("top",), ("push", rng.below(nsc)), ("top",)]
        feats0.append("stack_used_before_first_yylex")
    # driver also uses the stack between calls
    if rng.chance(50):
        extra = [[("push", rng.below(nsc))], [("top",)], [("pop",)]]
        case["driver"]["after"] = case["driver"].get("after", []) + extra
    # deep stack histories (beyond the initial 25 entries, several growths)
    if i % 7 == 3:
        deep = [("push", rng.below(nsc)) for _ in range(rng.rint(30, 130))]
        deep += [("top",)] + [("pop",) for _ in range(rng.rint(0, len(deep)))]
        case["driver"]["after"] = [deep] + case["driver"].get("after", [])
        scripts.ensure_returns(case, rng, 80)
    ctx = gen.ctx_of(case)
    inputs = []
    for k in range(8):
        # probe strings of every rule, so that inactivity is observed too
        parts = []
        for r in rng.sample(rules, min(len(rules), 8)):
            s = g.sample(r["pat"], ctx)
            if s:
                parts.append(s)
        s = b"".join(parts) + g.make_input(case, ctx, maxlen=40)
        inputs.append({"sources": [s], "sched": [0]})
    case["budget"] = {"events": 900}
    # the start-state tables differ per representation (yy_start_state_list for -CF)
    tb = rotate(i // 2, ["", "-CFe", "-Cem", "-Cfe", "-C", "-CF", "-Ca", "-Cf"])
    fl = flavour4(i, tb)
    cfg = {"flavour": fl, "flexargs": lib.tables_args(tb, 8)}
    feats = (["scs>40"] if big else []) + ["tables:" + (tb or "default")] + feats0
    return {"case": case, "configs": [cfg], "inputs": inputs, "features": feats}


# ---------------------------------------------------------------------------- C06
def c06_job(chk, rng, i):
    p = gen.default_profile()
    p["nrules"] = (2, 8)
    p["depth"] = 2
    p["bol"] = 30
    p["trail"] = 45
    p["bar"] = 12
    p["scs"] = rng.choice([0, 0, 1])
    g, case = base_case(chk, rng, p)
    # several trailing-context rules with the same head and different trails (their head
    # markers meet in one automaton state)
    if i % 2 == 0:
        for k in range(rng.rint(1, 2)):
            src = rng.choice(case["rules"])
            head = src["pat"] if rng.chance(60) else ("plus", ("chr", rng.choice(b"ab")))
            for j in range(2):
                case["rules"].insert(rng.below(len(case["rules"]) + 1), {
                    "scs": src["scs"], "bol": src["bol"], "pat": head,
                    "trail": ("cat", [("plus", ("chr", rng.choice(b"cd01"))),
                                      ("chr", rng.choice(b"abcd"))]) if rng.chance(70)
                    else g.series(1), "act": []})
    # fixed-length heads and trails built from exact repeats of multi-byte singletons
    # (groups, strings, definitions): flex computes the split position from their lengths
    if i % 3 == 1 or i % 4 == 2:
        def multi():
            w = bytes(rng.choice(b"abcd01") for _ in range(rng.rint(2, 3)))
            form = rng.below(3)
            if form == 0:
                return ("grp", ("cat", [("chr", c) for c in w]), None, None)
            if form == 1:
                return ("str", w)
            return ("grp", ("cat", [("chr", w[0]), ("ccl", False, [("c", c) for c in sorted(set(w))])]),
                    None, None)

        def fixed():
            parts = []
            for _ in range(rng.rint(1, 2)):
                n = rng.rint(2, 3)
                parts.append(("rep", multi(), n, n, "exact") if rng.chance(70) else multi())
            return parts[0] if len(parts) == 1 else ("cat", parts)
        for k in range(rng.rint(1, 3)):
            var = ("plus", ("chr", rng.choice(b"abx")))
            shape = rng.below(3)
            head, trail = [(fixed(), fixed()), (fixed(), var), (var, fixed())][shape]
            case["rules"].insert(rng.below(len(case["rules"]) + 1), {
                "scs": None, "bol": False, "pat": head, "trail": trail, "act": [], "_fixed": True})
    nullable = (i % 5 == 1)
    if nullable:
        # a trail that can match the empty string (r/s* , r/s?): the head then ends where the
        # whole match ends whenever nothing of the trail follows
        hs, ts = rng.sample([b"ab", b"cd", b"01", b"xy"], 2)
        head = ("plus", ("ccl", False, [("c", c) for c in hs]))
        if rng.chance(30):
            head = ("cat", [("chr", hs[0]), ("chr", hs[1])])
        tn = ("ccl", False, [("c", c) for c in ts])
        trail = rng.choice([("star", tn), ("opt", ("chr", ts[0])),
                            ("cat", [("opt", ("chr", ts[0])), ("star", ("chr", ts[1]))])])
        case["rules"].insert(rng.below(len(case["rules"]) + 1), {
            "scs": None, "bol": False, "pat": head, "trail": trail, "act": [], "_null": (hs, ts)})
    danger = (i % 10 == 3)
    if danger:
        # the shape the manual calls dangerous (the head can end with what the trail starts
        # with): flex must either warn - then the case is exempt and skipped - or split right
        a_, b_, c_ = rng.sample(list(b"qxyz"), 3)
        case["rules"].insert(0, {"scs": None, "bol": False,
                                 "pat": ("cat", [("chr", a_), ("star", ("chr", b_))]),
                                 "trail": ("cat", [("chr", b_), ("plus", ("chr", c_))]), "act": []})
    f = {"ret": 25, "setbol": 12 if i % 3 == 0 else 0}
    if i % 4 == 2:
        f["more"] = 35      # a yymore() prefix must not shift the head/trail split
    scripts.decorate(case, rng, f)
    if i % 4 == 2:
        # a rule that always calls yymore(), so that the next token starts with a prefix
        case["rules"].insert(0, {"scs": None, "bol": False, "pat": ("chr", 60), "trail": None,
                                 "act": [("more",)]})
    scripts.driver_walk_scs(case, rng)
    ctx = gen.ctx_of(case)
    inputs = []
    for k in range(14):
        s = g.make_input(case, ctx, maxlen=70)
        if rng.chance(40) and s.endswith(b"\n"):
            s = s[:-1]      # '$' at end of input without a newline
        inputs.append({"sources": [s], "sched": rng.choice([[0], [0], [1], [2, 1]])})
    if danger:
        for k in range(3):
            inputs.append({"sources": [bytes([a_]) + bytes([b_]) * rng.rint(1, 3) + bytes([c_]) * rng.rint(1, 2)
                                       + b" " + g.make_input(case, ctx, maxlen=20)], "sched": [0]})
    for r in case["rules"]:
        if r.get("_null"):
            hs, ts = r["_null"]
            for k in range(3):
                w = b""
                for _ in range(rng.rint(3, 6)):
                    w += bytes(rng.choice(hs) for _ in range(rng.rint(1, 3)))
                    w += rng.choice([b" ", b"", bytes([ts[0]]), bytes(rng.choice(ts) for _ in range(2)), b"\n"])
                inputs.append({"sources": [w + g.make_input(case, ctx, maxlen=20)], "sched": rng.choice([[0], [1]])})
    if i % 4 == 2:
        for r in case["rules"]:
            if r.get("_fixed"):
                h, t = g.sample(r["pat"], ctx), g.sample(r["trail"], ctx)
                if h and t:
                    s = b"<" + h + t + b" " + h + t + b"<<" + h + t + b"\n"
                    inputs.append({"sources": [s], "sched": rng.choice([[0], [1]])})
    for r in case["rules"]:
        r.pop("_fixed", None)
        r.pop("_null", None)
    tb = rotate(i // 3, ["", "-Cem", "-Ce", "-C", "-Cm", "-Cfe", "-CFe", "-Ca"])
    fl = flavour4(i, tb)
    cfg = {"flavour": fl, "flexargs": lib.tables_args(tb, 8)}

    def expect_build(cfg, built):
        # variable trailing context cannot be used with -Cf/-CF: documented refusal
        if built.stage == "flex" and ("f" in tb or "F" in tb):
            return "variable trailing context rules cannot be used" in built.warnings
        return False
    classes = set()
    for r in case["rules"]:
        if r.get("trail") is not None:
            hf = pat.fixed_length(r["pat"], ctx) is not None
            tf = pat.fixed_length(r["trail"], ctx) is not None
            classes.add("trail:%s_head_%s_trail" % ("fixed" if hf else "var",
                                                    "fixed" if tf else "var"))
    if nullable:
        classes.add("trail:nullable")
    return {"case": case, "configs": [cfg], "inputs": inputs, "skip_if": dangerous,
            "expect_build": expect_build, "features": sorted(classes)}


# ---------------------------------------------------------------------------- C07
def c07_job(chk, rng, i):
    p = gen.default_profile()
    p["nrules"] = (2, 9)
    p["depth"] = 2
    p["trail"] = 15
    p["bol"] = 10
    p["bar"] = 8
    p["scs"] = rng.choice([0, 0, 1, 2])
    if i % 5 == 0 or i % 4 == 2:
        p["extra_alpha"] = b"\x00"
    g, case = base_case(chk, rng, p)
    # overlapping rules: prefixes / duplicates of existing ones
    rules = case["rules"]
    for k in range(rng.rint(1, 4)):
        src = rng.choice(rules)
        rules.insert(rng.below(len(rules) + 1), {
            "scs": src["scs"], "bol": False, "pat": src["pat"], "trail": None, "act": []})
    f = {"reject": 65, "ret": 20}
    uses = scripts.decorate(case, rng, f)
    if "reject" not in uses:
        # the machinery can also be forced without a textual REJECT
        case["opts"]["reject_opt"] = True
        case["opts"]["uses_reject"] = True
    more_prefix = (i % 3 == 1)
    if more_prefix:
        # a rule that always calls yymore(): the token after it carries the kept text, and so
        # must every alternative its action reaches through REJECT
        case["rules"].insert(0, {"scs": "*", "bol": False, "pat": ("chr", 60), "trail": None,
                                 "act": [("more",)]})
        case["uses"] = sorted(set(case.get("uses", [])) | {"more"})
    scripts.driver_walk_scs(case, rng)
    ctx = gen.ctx_of(case)
    inputs = []
    for k in range(12):
        s = g.make_input(case, ctx, maxlen=50)
        if more_prefix:
            sb = bytearray(s.replace(b"<", b""))
            for _ in range(rng.rint(2, 5)):
                sb[rng.below(len(sb) + 1):0] if False else sb.insert(rng.below(len(sb) + 1), 60)
            s = bytes(sb)
        inputs.append({"sources": [s], "sched": rng.choice([[0], [1], [3], [2, 5]])})
    case["budget"] = {"events": 1500}
    fl = flavour4(i)
    tb = rotate(i // 3, ["", "-Cem", "-Ce", "-C", "-Cm", "-Ca"])
    cfg = {"flavour": fl, "flexargs": lib.tables_args(tb, 8),
           "opts": {"bufsize": rng.choice([None, None, 64, 256])}}
    if cfg["opts"]["bufsize"] is None:
        del cfg["opts"]["bufsize"]
    # batch and interactive scanners find the action after a jam differently
    mode = rotate(i // 2, [None, False, True, False])
    if mode is not None:
        cfg["opts"]["interactive"] = mode
    feats = ["mode:" + str(mode)]
    if more_prefix:
        if fl != "cxx" and (i // 3) % 2 == 0:
            cfg["opts"]["array"] = True
        feats.append("reject_after_yymore:" + ("array" if cfg["opts"].get("array") else "pointer"))
    return {"case": case, "configs": [cfg], "inputs": inputs, "skip_if": dangerous,
            "features": feats}


# ---------------------------------------------------------------------------- C08
def c08_job(chk, rng, i):
    p = gen.default_profile()
    p["nrules"] = (2, 8)
    p["depth"] = 2
    p["trail"] = 8
    if i % 6 == 0:
        p["extra_alpha"] = b"\x00"
    g, case = base_case(chk, rng, p)
    f = {"less": 40, "more": 30, "unput": 30, "input": 30, "ret": 20,
         "unput_alpha": b"ab01 \n" + (b"\x00" if i % 6 == 0 else b"")}
    scripts.decorate(case, rng, f)
    if (i // 2) % 2 == 0:
        # '^' rule in a condition that is never entered: builds the scanner with its
        # beginning-of-line bookkeeping in yyinput()/yyunput()/yyless() (see C09)
        case["scs"].append(("NEVERBOL", True))
        case["rules"].append({"scs": [len(case["scs"]) - 1], "bol": True, "pat": ("chr", 97),
                              "trail": None, "act": []})
    array = (i % 2 == 1)
    if not array and (i // 2) % 3 == 1:
        # yyless(n) with n inside a pending yymore() prefix: yytext covers both, so the first n
        # characters of the prefix stay and the rest of it is scanned again.  %pointer only:
        # with %array this runs outside the buffer (known finding K06, tag below)
        for r in case["rules"]:
            if r["act"] == "|":
                continue
            for op in r["act"]:
                if op[0] == "if":
                    for n_, o in enumerate(op[4]):
                        if o[0] == "less":
                            op[4][n_] = ("less", "abs0", rng.rint(0, 3), o[3])
    ctx = gen.ctx_of(case)
    nsrc = rng.choice([1, 1, 2, 3])
    inputs = []
    for k in range(12):
        srcs = [g.make_input(case, ctx, maxlen=80) for _ in range(nsrc)]
        if nsrc > 1 and k % 3 == 2:
            # very short sources: yyinput() (and yymore/yyless) meet the end of a source, and
            # of the next one, within a single action
            srcs = [x[:rng.rint(1, 4)] for x in srcs[:-1]] + [srcs[-1]]
        inputs.append({"sources": srcs, "sched": rng.choice([[0], [1], [1], [2, 3], [7]])})
    case["wrap"] = [("next", j) for j in range(1, nsrc)]
    case["budget"] = {"events": 700}
    fl = flavour4(i) if not array else rotate(i, FLAV3)     # (no %array in C++)
    cfg = {"flavour": fl, "flexargs": (), "opts": {"array": array}}
    if (i // 4) % 2 == 1 and fl != "cxx":
        # yyless() called from a function of section 3 (the skeleton defines it a second time
        # for that): same meaning as in an action, also with a yymore() prefix in front
        cfg["opts"]["less_in_sect3"] = True
    if array and rng.chance(40):
        cfg["opts"]["yylmax"] = 512
    bs = rng.choice([None, 16, 64, 300])
    if bs and "unput" not in case.get("uses", []):
        # push-back only with the default buffer: ample room, i.e. "within the documented
        # push-back capacity" by construction
        cfg["opts"]["bufsize"] = bs
    feats = ["array" if array else "pointer"]
    if cfg["opts"].get("less_in_sect3") and "less" in case.get("uses", []):
        feats.append("yyless_in_section3:" + ("array" if array else "pointer"))
    return {"case": case, "configs": [cfg], "inputs": inputs, "skip_if": dangerous,
            "features": feats}


# ---------------------------------------------------------------------------- C09
def c09_job(chk, rng, i):
    p = gen.default_profile()
    p["nrules"] = (2, 9)
    p["depth"] = 2
    p["trail"] = 20
    p["bar"] = 15
    p["alpha"] = b"ab01 \n\n"
    nul_lines = (i % 3 == 2)
    if nul_lines:
        # NUL bytes inside tokens that span lines: the newlines after a NUL count as well
        p["extra_alpha"] = b"\x00"
    g, case = base_case(chk, rng, p)
    if nul_lines:
        case["rules"].append({"scs": None, "bol": False, "trail": None, "act": [],
                              "pat": ("plus", ("ccl", True, [("c", 97), ("c", 98)]))})
    mode = i % 4
    if mode == 0:
        f = {"ret": 25}
    elif mode == 1:
        f = {"less": 35, "unput": 25, "input": 30, "more": 25, "ret": 20,
             "unput_alpha": b"a\n\nb"}
    elif mode == 2:
        f = {"reject": 50, "ret": 20}
    else:
        f = {"more": 40, "less": 30, "ret": 25}
    if mode in (1, 3):
        for r in case["rules"]:
            r["bol"] = False
    scripts.decorate(case, rng, f)
    if mode in (1, 3) and (i // 4) % 2 == 0:
        # a '^' rule in a condition that is never entered: the scanner is built with its
        # beginning-of-line bookkeeping (another code path in yyinput()/yyunput()), while the
        # model's domain restriction on '^' after yyless/yyunput/yyinput is not touched
        case["scs"].append(("NEVERBOL", True))
        case["rules"].append({"scs": [len(case["scs"]) - 1], "bol": True, "pat": ("chr", 97),
                              "trail": None, "act": []})
    nl_prefix = mode in (1, 3) and (i // 4) % 3 == 1
    if nl_prefix:
        # a yymore() prefix that contains a newline, handed back (in part) by yyless() in the
        # action of a rule that cannot match a newline itself
        case["rules"].insert(0, {"scs": None, "bol": False, "trail": None,
                                 "pat": ("cat", [("ccl", False, [("c", 97), ("c", 98)]), ("chr", 10)]),
                                 "act": [scripts.cond(rng, [("more",)], 801, 75)]})
        case["rules"].insert(1, {"scs": None, "bol": False, "trail": None, "pat": ("plus", ("chr", 48)),
                                 "act": [scripts.cond(rng, [("less", "abs0", rng.rint(0, 2), 803)], 802, 75)]})
        case["uses"] = sorted(set(case.get("uses", [])) | {"more", "less"})
    case["opts"]["yylineno"] = (i % 10 != 9)      # every tenth case: option off
    ctx = gen.ctx_of(case)
    inputs = []
    for k in range(12):
        s = g.make_input(case, ctx, maxlen=80)
        if nl_prefix and k % 2 == 0:
            for _ in range(3):
                pos = rng.below(len(s) + 1)
                s = s[:pos] + rng.choice([b"a\n00", b"b\n0", b"a\nb\n000 "]) + s[pos:]
        if nul_lines and k % 2 == 1:
            for _ in range(2):
                pos = rng.below(len(s) + 1)
                s = s[:pos] + rng.choice([b"0\x00\n1\n", b" \n\x00\n\n0", b"\x00\x00\n"]) + s[pos:]
        inputs.append({"sources": [s], "sched": rng.choice([[0], [1], [3]])})
    tb = rotate(i // 3, ["", "-Cem", "-C", "-Cfe", "-CFe"])
    fl = flavour4(i, tb)
    if case["opts"].get("uses_reject") and ("f" in tb or "F" in tb):
        tb = ""
    cfg = {"flavour": fl, "flexargs": lib.tables_args(tb, 8),
           "opts": {"array": (i % 5 == 4 or (mode in (1, 3) and i % 3 != 0)) and not nl_prefix}}
    expect_build = std_refusals(tb)
    routes = set()
    for r in case["rules"]:
        ks = pat.node_kinds(r["pat"])
        if pat.can_match_newline(r["pat"], ctx):
            for k in ks:
                if k in ("chr", "ccl", "ccl^", "dot", "str", "ref", "cclop-", "cclop+",
                         "flag+s", "ccl:p^", "ccl:p"):
                    routes.add("nl_route:" + k)
        else:
            routes.add("rule_without_newline")
    if nul_lines:
        routes.add("nul_inside_multiline_tokens")
    return {"case": case, "configs": [cfg], "inputs": inputs, "skip_if": dangerous,
            "expect_build": expect_build, "features": sorted(routes)}


# ---------------------------------------------------------------------------- C10
def c10_job(chk, rng, i):
    p = gen.default_profile()
    p["nrules"] = (2, 8)
    p["depth"] = 2
    p["trail"] = 15
    p["bol"] = 20
    p["scs"] = rng.choice([0, 1, 2, 3])
    if i % 9 == 4:
        p["scs"] = rng.rint(41, 55)     # beyond the initial allocation of the per-condition arrays
    g, case = base_case(chk, rng, p)
    nsc = len(case["scs"])
    nsrc = rng.choice([1, 2, 3, 4, 5])
    # EOF rules: none / unqualified / some conditions / both
    style = rng.below(6)
    eofs = []

    def eof_action(k):
        t = rng.below(3)
        if t == 0 or nsrc < 2:
            return [("term",)]
        if t == 1:
            return [("ret", 0)]
        # continue with a fresh source from inside the EOF action, once
        return [("if", 900 + k, 100, 50, [("x", ("restart", rng.below(nsrc)))]),
                ("term",)]
    if style in (1, 3) and nsc > 1:
        scs = sorted(rng.sample(range(nsc), rng.rint(1, nsc - 1)))
        eofs.append({"scs": scs, "act": eof_action(1)})
    if style in (4, 5) and nsc > 2:
        # overlapping lists: a condition that already has its rule appears again (flex warns
        # and the first rule keeps it), followed by conditions that have none yet
        a = rng.below(nsc)
        eofs.append({"scs": [a], "act": eof_action(3)})
        rest = [x for x in range(nsc) if x != a]
        rng.shuffle(rest)
        lst = [a] + rest[:rng.rint(1, len(rest))]
        if rng.chance(50):
            lst = rest[:1] + [a] + rest[1:rng.rint(2, len(rest))] if len(rest) > 1 else lst
        eofs.append({"scs": lst if rng.chance(80) else "*", "act": eof_action(4)})
    if style in (2, 3, 5):
        eofs.append({"scs": None, "act": eof_action(2)})
    # an EOF action that restarts and then falls into yyterminate would terminate anyway;
    # restructure: restart => fall through (no terminate)
    for e in eofs:
        a = e["act"]
        if len(a) == 2 and a[0][0] == "if":
            e["act"] = [("if", a[0][1], 100, 50, [("x", ("restart", a[0][4][0][1][1])), ("ret", 33)]),
                        ("term",)]
    case["eofs"] = eofs
    f = {"ret": 30, "begin": 40}
    scripts.decorate(case, rng, f)
    ctx = gen.ctx_of(case)
    # yywrap: chain of sources, then stop
    chain = list(range(1, nsrc))
    rng.shuffle(chain)
    ncont = rng.rint(0, len(chain))
    case["wrap"] = [("next", s) for s in chain[:ncont]] + [("stop",)]
    # after termination: new yyin / yyrestart, then continue (the documented post-EOF uses)
    atend = []
    for k in range(rng.rint(0, 3)):
        ops = [(rng.choice(["newin", "restart"]), rng.below(nsrc))]
        atend.append(ops)
    case["driver"] = {"atend": atend}
    if nsc > 1 and rng.chance(50):
        scripts.driver_walk_scs(case, rng)
    # wrap list must cover the additional exhaustions after restarts
    case["wrap"] = case["wrap"] + [("stop",)] * 8
    inputs = []
    for k in range(10):
        srcs = []
        for j in range(nsrc):
            t = rng.below(6)
            if t == 0:
                srcs.append(b"")
            else:
                s = g.make_input(case, ctx, maxlen=50)
                if t == 1 and s.endswith(b"\n"):
                    s = s[:-1]
                srcs.append(s)
        inputs.append({"sources": srcs, "sched": rng.choice([[0], [1], [2, 3], [5]])})
    case["budget"] = {"events": 800}
    include_mode = (i % 4 == 3 and nsrc >= 2)
    if include_mode:
        # "include" style: an action pushes a buffer on another source, yywrap pops back
        # to the including buffer (which still holds unread, already buffered text)
        case["eofs"] = []
        case["driver"] = {"init": [("open_buf", 0)]}
        k0 = 700
        cands = [r for r in case["rules"] if r["act"] != "|"]
        for n_, r in enumerate(rng.sample(cands, min(len(cands), 3))):
            s_ = 1 + n_
            src = 1 + (n_ % (nsrc - 1))
            r["act"] = [("if", k0 + n_, 100, 40, [("x", ("gcreate", s_, src, 0)),
                                                   ("x", ("gpush", s_))])] + list(r["act"])
        case["wrap"] = [("pop",)] * 40
    if case["eofs"] and i % 3 == 1:
        # the last pattern rule has a '|' action, so it shares the action of the <<EOF>> rule
        # that follows it; its text never occurs in the inputs (which are already made)
        e0 = case["eofs"][0]
        case["rules"].append({"scs": e0["scs"], "bol": False, "pat": ("str", b"\x7f\x7e\x7f"),
                              "trail": None, "act": "|"})
    def has_x(act):
        return any(o[0] == "x" or (o[0] == "if" and has_x(o[4])) for o in act)
    soft = (i % 5 == 1 and not include_mode and ncont >= 1 and
            not any(has_x(e["act"]) for e in case["eofs"]))
    if soft:
        # an input that reports its end and then goes on (a terminal, a growing file): yywrap
        # returns 0 with yyin unchanged; the end falls at a random place, often inside a token
        s1 = case["wrap"][0][1]
        case["wrap"][0] = ("soft", s1)
        case["driver"]["atend"] = []
        for inp in inputs:
            s = inp["sources"][0] + inp["sources"][s1]
            cut = rng.below(len(s) + 1)
            inp["sources"][0], inp["sources"][s1] = s[:cut], s[cut:]
    string_first = (i % 5 == 3 and not include_mode)
    if string_first:
        # the program starts on a string (yy_scan_bytes) and goes on with files: at the end of the
        # string yywrap() points yyin at a file and returns 0
        # (every other time the string is scanned in place, yy_scan_buffer(): memory the scanner
        # does not own, which yyrestart()/YY_NEW_FILE must still be able to fill from the file)
        first = ("scan_buffer", 1, 0, True) if (i // 5) % 2 == 1 else ("scan_bytes", 1, 0)
        case["driver"]["init"] = [("open", 0), first] + \
            [op for op in case["driver"].get("init", []) if op[0] == "begin"]
        case["wrap"] = [("next", 0)] + case["wrap"]
        for inp in inputs:
            # text made before any rule was added; long enough for the buffer made for it to
            # hold any token of the files that follow (a scanner that cannot enlarge its buffer -
            # REJECT, variable trailing context - would stop there with its documented error)
            inp["strings"] = [(b"".join(inp["sources"]) * 8 + b"a b c d e f g h i j " * 20)[:300]]
    fl = rotate(i, FLAV3)
    tb = rotate(i // 3, ["", "-Cem", "-C", "-Cfe", "-CFe", "-Ca"])
    cfg = {"flavour": fl, "flexargs": lib.tables_args(tb, 8),
           "opts": {"interactive": rotate(i // 2, [None, True, False])
                    if not ("f" in tb or "F" in tb) else False}}
    feats = ["nsrc:%d" % nsrc, "eof_style:%d" % style]
    if len(case["scs"]) > 40:
        feats.append("scs>40")
    if include_mode:
        feats.append("include_mode")
    if soft:
        feats.append("soft_end_of_input")
    if string_first:
        feats.append("string_then_files")
        feats.append("string_then_files:" + case["driver"]["init"][1][0])
    return {"case": case, "configs": [cfg], "inputs": inputs, "skip_if": dangerous,
            "expect_build": std_refusals(tb), "features": feats}


# ---------------------------------------------------------------------------- C11
def c11_job(chk, rng, i):
    p = gen.default_profile()
    p["nrules"] = (2, 7)
    p["depth"] = 1
    p["bol"] = 25
    g, case = base_case(chk, rng, p)
    nsrc = rng.rint(3, 6)
    nstr = 8
    nslot = 48 if i % 5 == 2 else rng.choice([4, 6, 12, 48])
    kctr = [100]

    def k():
        kctr[0] += 1
        return kctr[0]
    used_str = [0]

    def bufop():
        t = rng.below(12)
        if t < 2:
            return ("gcreate", rng.rint(1, nslot - 1), rng.below(nsrc), rng.choice([0, 0, 16, 64]))
        if t < 4:
            return ("gswitch", rng.below(nslot))
        if t < 6:
            return ("gpush", rng.below(nslot))
        if t < 7:
            return ("gpop",)
        if t < 8:
            return ("gdelete", rng.below(nslot))
        if t < 10 and used_str[0] < nstr:
            si = used_str[0]
            used_str[0] += 1
            kind = rng.choice(["gscan_bytes", "gscan_string", "gscan_buffer"])
            if kind == "gscan_buffer":
                return (kind, rng.rint(1, nslot - 1), si, rng.chance(75))
            return (kind, rng.rint(1, nslot - 1), si)
        if t < 11:
            if rng.chance(30):
                return ("gdelrestart", rng.below(nsrc))
            if rng.chance(30):
                return ("gdelpush", rng.below(nslot))
            return (rng.choice(["gflush", "greflush"]), rng.below(nslot))
        return ("gpush", rng.below(nslot))
    for r in case["rules"]:
        if r["act"] == "|":
            r["act"] = []
        ops = []
        if rng.chance(25):
            ops.append(("if", k(), 100, rng.choice([20, 40]), [("x", bufop())]))
        if rng.chance(60):
            ops.append(("if", k(), 100, rng.choice([30, 60]), [("ret", rng.rint(1, 9))]))
        r["act"] = ops
    after = []
    for n in range(rng.rint(6, 30)):
        after.append([("x", bufop()) for _ in range(rng.rint(1, 3))])
    # deep nesting: beyond the initial buffer-stack allocation (1, grows in steps of 8)
    if i % 5 == 2:
        deep = []
        for s in range(1, min(nslot, 30)):
            deep.append(("x", ("gscan_bytes", s, s % nstr)))   # replaces the top ...
            deep.append(("x", ("gpush", 0 if s == 1 else s - 1)))   # ... which is pushed again
        after = [deep] + after
    if i % 8 == 6:
        # (directed, so that the feature does not depend on the seed) a push right after the
        # current buffer was deleted
        after = [[("x", ("gcreate", 1, 1 % nsrc, 0)), ("x", ("gdelpush", 1))]] + after
    case["driver"] = {"init": [("open_buf", 0)], "after": after}
    small_first = (i % 6 == 4)
    if i % 6 == 3:
        # the first thing the program does is yyrestart(file): no buffer and no yyin yet
        case["driver"]["init"] = [("open_restart", 0)]
    if small_first:
        # REJECT machinery (state buffer sized from the first buffer) + a tiny first buffer
        # + larger buffers pushed / switched to later, holding longer tokens
        case["rules"].append({"scs": None, "bol": False,
                              "pat": ("plus", ("ccl", False, [("c", 120), ("c", 121)])),
                              "trail": None, "act": [("if", 77, 100, 30, [("reject",)])]})
        case["opts"]["uses_reject"] = True
    case["wrap"] = [("pop",)] * 60
    reuse = (i % 4 == 1)
    if reuse:
        # exhausted buffers are kept and used again: at end of input yywrap switches to
        # another buffer (the exhausted one stays alive), later the file behind it is rewound,
        # the buffer flushed and switched back to; sources end in the middle of a token
        case["driver"]["init"] = [("open_buf", 0), ("gcreate", 1, 1, 0)]
        case["wrap"] = [("gswitch_or_pop", 1), ("gswitch_or_pop", 0)] * 30
        cyc = [[("x", ("greflush", 0))], [("x", ("gswitch", 0))], [("x", ("greflush", 1))],
               [("x", ("gswitch", 1))]]
        case["driver"]["after"] = (cyc * 3) + case["driver"]["after"]
    case["opts"]["yylineno"] = ((i // 3) % 2 == 0)     # (independent of the flavour rotation)
    ctx = gen.ctx_of(case)
    inputs = []
    for n in range(8):
        srcs = [g.make_input(case, ctx, maxlen=60) for _ in range(nsrc)]
        strs = [g.make_input(case, ctx, maxlen=30) for _ in range(nstr)]
        if rng.chance(50):
            j = rng.below(nstr)
            strs[j] = strs[j][:5] + b"\x00" + strs[j][5:]
        if rng.chance(50):
            j = rng.below(nstr)
            strs[j] = strs[j] + b"\x00"        # NUL as the very last byte handed to yy_scan_bytes
        if reuse:
            srcs = [x.rstrip(b"\n") + rng.choice([b"", b"ab", b"x"]) for x in srcs]
        inp = {"sources": srcs, "strings": strs, "sched": rng.choice([[0], [1], [2, 3], [7]])}
        if small_first:
            inp["bufsize"] = rng.choice([4, 8, 16])
            for j in range(1, nsrc):
                k = rng.below(len(srcs[j]) + 1)
                srcs[j] = srcs[j][:k] + bytes(rng.choice(b"xy") for _ in range(rng.rint(10, 40))) + srcs[j][k:]
            srcs[0] = srcs[0].replace(b"x", b"a").replace(b"y", b"b")
        inputs.append(inp)
    case["budget"] = {"events": 900}
    fl = rotate(i, FLAV3)
    cfg = {"flavour": fl, "flexargs": ()}
    feats = ["nslot:%d" % nslot]
    if small_first:
        feats.append("small_first_buffer_reject")
    return {"case": case, "configs": [cfg], "inputs": inputs, "features": feats}


# ---------------------------------------------------------------------------- C03
def c03_job(chk, rng, i):
    p = gen.default_profile()
    p["nrules"] = (2, 8)
    p["depth"] = 2
    p["trail"] = 15
    p["bol"] = 15
    reject_case = (i % 6 == 5)
    if i % 3 == 1:
        # NUL and high bytes in rules and input: a NUL that is the last byte of a delivery
        # must not be taken for the end-of-buffer sentinel
        p["extra_alpha"] = b"\x00\x00\xff"
    g, case = base_case(chk, rng, p)
    f = {"ret": 25, "more": 15}
    if reject_case:
        f = {"ret": 20, "reject": 40}
    scripts.decorate(case, rng, f)
    # a long-token rule so that tokens outgrow small buffers
    case["rules"].append({"scs": None, "bol": False,
                          "pat": ("plus", ("ccl", False, [("c", 120), ("c", 121)])),
                          "trail": None, "act": []})
    case["driver"] = {"init": [("open_buf", 0)]}
    mem = ((i // 2) % 2 == 0)
    if mem and not reject_case:
        # the long-token rule asks for yymore() now and then; some inputs end in such a token,
        # so a yymore() can be pending when the end of the text is reached
        case["rules"][-1]["act"] = [("if", 991, 100, 60, [("more",)])]
        case["uses"] = sorted(set(case.get("uses", [])) | {"more"})
    ctx = gen.ctx_of(case)
    inputs = []
    for k in range(5):
        s = g.make_input(case, ctx, maxlen=90)
        if mem and k >= 3:
            s = s.rstrip(b"\n") + rng.choice([b"x", b"yx", b" xyy"])
        if rng.chance(50):
            pos = rng.below(len(s) + 1)
            s = s[:pos] + bytes(rng.choice(b"xy") for _ in range(rng.choice([5, 20, 70, 200]))) + s[pos:]
        if reject_case:
            s = s.replace(b"x", b"q").replace(b"y", b"q")   # REJECT buffers do not grow
        if i % 3 == 1:
            sb = bytearray(s)
            for _ in range(rng.rint(1, 4)):
                pos = rng.below(len(sb) + 1)
                sb[pos:pos] = b"\x00" * rng.choice([1, 1, 2])
            s = bytes(sb)
        scheds = [[1], [0], [rng.rint(1, 8) for _ in range(5)], [1, 2, 4, 8, 16, 32], [3]]
        bufs = [0, 1, 2, 3, 7, 16, 64]
        if reject_case:
            bufs = [0, 256, 512]
        combos = [(rng.choice(scheds), rng.choice(bufs)) for _ in range(4)] + [([1], 1), ([0], 0)]
        for sch, bs in combos:
            inputs.append({"sources": [s], "sched": sch, "bufsize": bs, "key": k})
    fl = rotate(i, FLAV3)
    tb = rotate(i // 3, ["", "-Cem", "-C", "-Cfe", "-CFe", "-Ca", "-Cf", "-CF"])
    if reject_case:
        tb = rotate(i // 3, ["", "-Cem", "-C"])
    full = ("f" in tb or "F" in tb)
    base = {"flavour": fl, "flexargs": lib.tables_args(tb, 8)}
    if i % 4 == 0:
        # %array: a yymore() prefix has to survive a refill inside the continued token
        base["opts"] = {"array": True}
    configs = [dict(base)]
    kind = i % 4
    # other input paths (default back end): stdio batch, stdio interactive (getc), read(2)
    sfl = "c99" if (i // 4) % 2 == 1 else "nr"     # (the c99 skeleton has its own yyread())
    if kind == 1:
        configs.append({"flavour": sfl, "flexargs": lib.tables_args(tb, 8),
                        "opts": {"input": "stdio", "never_interactive": True}})
    elif kind == 2 and not full:
        configs.append({"flavour": sfl, "flexargs": lib.tables_args(tb, 8),
                        "opts": {"input": "stdio", "always_interactive": True}})
    elif kind == 3:
        # read(2) path; neither -I nor -B given: interactive by default unless -Cf/-CF, so
        # the look-ahead bound applies to it as well
        c3 = {"flavour": "r", "flexargs": lib.tables_args(tb, 8),
              "opts": {"input": "stdio", "use_read": True}, "input_flags": 2}
        plain = not reject_case and not any(
            r["act"] != "|" and any(o[0] == "if" and o[4][0][0] == "more" for o in r["act"])
            for r in case["rules"])
        if not full and plain:
            c3["input_flags"] = 3
            c3["deliv"] = True
            c3["input_filter"] = lambda inp: inp["sched"] == [1]
        configs.append(c3)
    # interactive scanners must not over-read (1-byte reads, single plain source)
    if not full and not reject_case and not any(r["act"] != "|" and r["act"] and
                                                any(o[0] == "if" and o[4][0][0] == "more"
                                                    for o in r["act"]) for r in case["rules"]):
        configs.append({"flavour": fl, "flexargs": lib.tables_args(tb, 8) + ("-I",),
                        "opts": {"interactive": True}, "input_flags": 1, "deliv": True,
                        "input_filter": lambda inp: inp["sched"] == [1]})
    feats = ["tables:" + (tb or "default"), "kind:%d" % kind]
    if reject_case:
        feats.append("reject_scanner")
    if mem:
        # the same bytes handed over in memory: yy_scan_bytes / yy_scan_string (copies) or
        # yy_scan_buffer (in place).  Such buffers are never refilled, which is its own branch
        # of the end-of-buffer code (a yymore() pending at the end of the text included)
        how = rotate(i // 4, ["scan_bytes", "scan_buffer", "scan_string"])
        if how == "scan_string" and i % 3 == 1:
            how = "scan_bytes"          # (NUL bytes in the input)
        first = ("scan_buffer", 1, 0, True) if how == "scan_buffer" else (how, 1, 0)
        m = dict(base)
        m["driver"] = {"init": [("open", 0), first]}
        m["input_filter"] = lambda inp: inp["sched"] == [0] and inp["bufsize"] == 0
        m["tagx"] = "mem"
        configs.append(m)
        feats.append("memory:" + how)
    for inp in inputs:
        inp["strings"] = [inp["sources"][0]]
    return {"case": case, "configs": configs, "inputs": inputs, "skip_if": dangerous,
            "expect_build": std_refusals(tb), "features": feats}
