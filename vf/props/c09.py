"""C09 -- see DESIGN.md section 4 (C09); job maker in tokens.py."""
from .. import common
from . import lib, tokens


def run(pid, tier):
    chk = common.Check(pid, tier)
    n = 100 if tier == "quick" else 1500
    chk.rule = RULE
    lib.explore(chk, range(n), tokens.c09_job)
    for k, m in REQUIRED.items():
        chk.require(k, m)
    return chk


def replay(d):
    return lib.replay(d)


RULE = ("case = rules that can or cannot match newline through every syntactic route; "
        "actions with yyless/yyunput('\\n')/yyinput/yymore/REJECT; yylineno compared at "
        "every action; every tenth case has the option off")
REQUIRED = {"reject": 5, "yyless": 5, "yyunput": 5, "yyinput": 5, "rule_without_newline": 1}
