"""C19 -- every documented option has its documented, observable effect; CLI = %option."""
import os, re, shutil
from .. import common, util, runner, known

RULE = ("finite enumeration of the option table transcribed from the manual: every row builds a "
        "probe scanner with the option as %option and (where a command-line form exists) on the "
        "command line, plus the scanner without the option; observables: symbols of the object "
        "file (nm), compile-time probes (static assertions, pointer-type checks), run-time "
        "output, files written, flex diagnostics.  A row counts only if the probe tells the "
        "scanner with the option from the one without it.  Besides, every spelling in the manual's "
        "option list (each '--name' and each '%option name' of an @item line of doc/flex.texi) "
        "is handed to flex and must be recognized")

MAIN = "int main(void) { while (yylex()) ; return 0; }\n"
RMAIN = ("int main(void) { yyscan_t s; if (yylex_init(&s)) return 9; while (yylex(s)) ; "
         "yylex_destroy(s); return 0; }\n")
RULES = "a+   { return 1; }\n.|\\n  ;\n"


def spec(optline="", defs="", rules=RULES, code=MAIN, top="", nowrap=True):
    s = ""
    if top:
        s += "%top{\n" + top + "\n}\n"
    s += "%{\n#include <stdio.h>\n#include <stdlib.h>\n#include <string.h>\n%}\n"
    if nowrap:
        s += "%option noyywrap\n"
    if optline:
        s += optline + "\n"
    s += defs
    s += "%%\n" + rules + "%%\n" + code
    return s


def R(name, opt=None, cli=None, probes=(), base=None, **kw):
    """A row.  opt: %option line; cli: command-line equivalent; base: dict of spec() arguments
    common to with/without builds; probes: list of (kind, *args) evaluated on both builds:
    the 'with' build must satisfy them and the 'without' build must not."""
    d = {"name": name, "opt": opt, "cli": cli, "probes": list(probes), "base": base or {}}
    d.update(kw)
    return d


ROWS = [
    R("prefix", '%option prefix="zz"', ["-Pzz"],
      [("sym", "zzlex"), ("sym", "zz_create_buffer"), ("sym", "zzrestart"), ("nosym_re", r"^yy")],
      base={"code": "int main(void) { return 0; }\n"}),
    R("prefix-reentrant", '%option prefix="zz" reentrant', ["-Pzz", "--reentrant"],
      [("sym", "zzlex"), ("sym", "zzlex_init"), ("sym", "zzget_extra"), ("nosym_re", r"^yy")],
      base={"code": "int main(void) { return 0; }\n"}, without_opt="%option reentrant"),
    R("prefix-bison", '%option prefix="zz" reentrant bison-bridge bison-locations',
      ["-Pzz", "--reentrant", "--bison-bridge", "--bison-locations"],
      [("sym", "zzlex"), ("sym", "zzget_lval"), ("sym", "zzset_lval"), ("sym", "zzget_lloc"),
       ("sym", "zzset_lloc"), ("nosym_re", r"^yy")],
      base={"top": "typedef int YYSTYPE; typedef struct { int first_line; } YYLTYPE;",
            "code": "int main(void) { return 0; }\n"},
      without_opt="%option reentrant bison-bridge bison-locations"),
    R("prefix-long-tables", '%option prefix="calc_scanner_" tables-file="probe.tbl"',
      ["-Pcalc_scanner_", "--tables-file=probe.tbl"],
      [("file_has", "probe.tbl", b"calc_scanner_tables\0"), ("sym", "calc_scanner_tables_fload"),
       ("nosym_re", r"^yy")],
      base={"code": "int main(void) { return 0; }\n"}),
    R("main", "%option main", ["--main"], [("sym", "main")], base={"code": ""}),
    R("noyywrap", "%option noyywrap", None, [("links",)], base={"nowrap": False, "code": MAIN}),
    R("stack", "%option stack", ["--stack"], [("anysym", "yy_push_state"), ("anysym", "yy_pop_state")],
      base={"code": MAIN}),
    R("noyy_push_state", "%option stack noyy_push_state", None, [("noanysym", "yy_push_state")],
      without_opt="%option stack", invert=True),
    R("noyy_pop_state", "%option stack noyy_pop_state", None, [("noanysym", "yy_pop_state")],
      without_opt="%option stack", invert=True),
    R("noyy_top_state", "%option stack noyy_top_state", None, [("noanysym", "yy_top_state")],
      without_opt="%option stack", invert=True),
    R("noyy_scan_buffer", "%option noyy_scan_buffer", None, [("noanysym", "yy_scan_buffer")], invert=True),
    R("noyy_scan_bytes", "%option noyy_scan_bytes", None, [("noanysym", "yy_scan_bytes")], invert=True),
    R("noyy_scan_string", "%option noyy_scan_string", None, [("noanysym", "yy_scan_string")], invert=True),
    R("noinput", "%option noinput", None, [("noanysym", "yyinput")], invert=True),
    R("noyyinput", "%option noyyinput", None, [("noanysym", "yyinput")], invert=True),
    R("nounput", "%option nounput", None, [("noanysym_re", r"^yyunput")], invert=True),
    R("noyyunput", "%option noyyunput", None, [("noanysym_re", r"^yyunput")], invert=True),
] + [
    R("no" + f, "%%option reentrant no%s" % f, None, [("noanysym", f)], without_opt="%option reentrant",
      invert=True, base={"code": RMAIN})
    for f in ("yyget_extra", "yyset_extra", "yyget_leng", "yyget_text", "yyget_lineno", "yyset_lineno",
              "yyget_in", "yyset_in", "yyget_out", "yyset_out", "yyget_debug", "yyset_debug",
              "yyget_column", "yyset_column")
] + [
    R("no" + f, "%%option reentrant bison-bridge bison-locations no%s" % f, None, [("noanysym", f)],
      without_opt="%option reentrant bison-bridge bison-locations", invert=True,
      base={"top": "typedef int YYSTYPE; typedef struct { int first_line; } YYLTYPE;",
            "code": "int main(void) { return 0; }\n"})
    for f in ("yyget_lval", "yyset_lval", "yyget_lloc", "yyset_lloc")
] + [
    R("main-implies-noyywrap", "%option main", ["--main"], [("links",)],
      base={"nowrap": False, "code": ""}, without_expect_fail=True),
] + [
    R("extra-type", '%option reentrant extra-type="struct probe *"', None,
      [("compiles",)], without_opt="%option reentrant",
      base={"top": "struct probe { int v; };",
            "code": "int main(void) { yyscan_t s; struct probe p, **pp; yylex_init(&s);\n"
                    "  { __typeof__(yyget_extra(s)) e = 0; pp = &e; (void) pp; }\n"
                    "  yyset_extra(&p, s); yylex_destroy(s); return 0; }\n"},
      cflags=["-Werror=incompatible-pointer-types"]),
    R("yylmax", "%option yylmax=333\n%array", None, [("compiles",)], without_opt="%array",
      base={"code": "typedef char probe_t[sizeof(yytext) == 333 ? 1 : -1];\n" + MAIN}),
    # yylmax is the size of yytext[]: a token of yylmax-1 characters fits (with and without a
    # yymore() elsewhere in the scanner), one of yylmax characters is the documented fatal error
    R("yylmax-fits", "%option yylmax=16\n%array", None,
      [("run", b"abcdefghijklmno pqr\n", "15 3 \n")], without_opt="%array\n%option yylmax=12",
      base={"rules": "[a-z]+   { printf(\"%d \", (int) yyleng); }\n[ \\n]  ;\n",
            "code": "int main(void) { while (yylex()) ; printf(\"\\n\"); return 0; }\n"},
      without_expect_fail=True),
    R("yylmax-fits-yymore", "%option yylmax=16\n%array", None,
      [("run", b"abcdefghijklmno pqr x-yz\n", "15 3 4 \n")], without_opt="%array\n%option yylmax=12",
      base={"rules": "[a-z]+-  { yymore(); }\n[a-z]+   { printf(\"%d \", (int) yyleng); }\n[ \\n]  ;\n",
            "code": "int main(void) { while (yylex()) ; printf(\"\\n\"); return 0; }\n"},
      without_expect_fail=True),
    R("stdout-outfile", '%option stdout outfile="named_scanner.c"', ["-t", "-o", "named_scanner.c"],
      [("stdout_has", '"named_scanner.c"'), ("stdout_lacks", '"<stdout>"')], no_o=True),
    R("bufsize", "%option bufsize=4321", None, [("compiles",)],
      base={"code": "typedef char probe_t[YY_BUF_SIZE == 4321 ? 1 : -1];\n" + MAIN}),
    R("yydecl", '%option yydecl="int mylex(int probe)"', None, [("compiles",), ("run", b"aa", "1\n")],
      base={"code": "int main(void) { printf(\"%d\\n\", mylex(5)); return 0; }\n"}),
    R("yyterminate", '%option yyterminate="return 77"', None, [("run", b"", "77\n")],
      base={"code": "int main(void) { printf(\"%d\\n\", yylex()); return 0; }\n"}),
    R("pre-action", '%option pre-action="probe_pre++;"', None, [("run", b"aa b", "pre=3\n")],
      base={"top": "static int probe_pre;",
            "code": "int main(void) { while (yylex()) ; printf(\"pre=%d\\n\", probe_pre); return 0; }\n"}),
    R("post-action", '%option post-action="probe_post++; break;"', None, [("run", b"aa b", "post=3\n")],
      base={"top": "static int probe_post;", "rules": "a+   { }\n.|\\n  { }\n",
            "code": "int main(void) { while (yylex()) ; printf(\"post=%d\\n\", probe_post); return 0; }\n"}),
    R("user-init", '%option user-init="probe_init++;"', None, [("run", b"aa", "init=1\n")],
      base={"top": "static int probe_init;",
            "code": "int main(void) { while (yylex()) ; printf(\"init=%d\\n\", probe_init); return 0; }\n"}),
    R("noyyread", "%option noyyread", None, [("run", b"", "1 reads>0\n")],
      base={"top": "static int probe_reads;",
            "code": "int yyread(char *buf, size_t n) { static const char *s = \"aaa\"; (void) n;\n"
                    "  probe_reads++; if (!*s) return 0; buf[0] = *s++; return 1; }\n"
                    "int main(void) { int a = yylex();\n"
                    "  printf(\"%d %s\\n\", a, probe_reads > 0 ? \"reads>0\" : \"none\"); return 0; }\n",
            "rules": "a{3}   { return 1; }\n.|\\n  ;\n"},
      without_expect_fail=True),
    R("noyyalloc", "%option noyyalloc noyyrealloc noyyfree", None, [("run", b"aa", "allocs>0\n")],
      base={"top": "static int probe_allocs;",
            "code": "void *yyalloc(yy_size_t n) { probe_allocs++; return malloc(n); }\n"
                    "void *yyrealloc(void *p, yy_size_t n) { return realloc(p, n); }\n"
                    "void yyfree(void *p) { free(p); }\n"
                    "int main(void) { while (yylex()) ; printf(probe_allocs > 0 ? \"allocs>0\\n\" : \"none\\n\"); "
                    "return 0; }\n"},
      without_expect_fail=True),
    # non-reentrant stdinit needs stdin to be a constant expression (the manual says so): the
    # effect is probed on a reentrant scanner, where initialisation happens at run time
    R("stdinit", "%option reentrant stdinit", None, [("run", b"", "in=1 out=1\n")],
      without_opt="%option reentrant",
      base={"code": "int main(void) { yyscan_t s; yylex_init(&s); printf(\"in=%d out=%d\\n\", "
                    "yyget_in(s) == stdin, yyget_out(s) == stdout); yylex_destroy(s); return 0; }\n"}),
    R("nodefault", "%option nodefault", ["-s"], [("run_fails", b"zz", "scanner jammed")],
      base={"rules": "a+   { return 1; }\n"}),
    R("debug", "%option debug", ["-d"], [("run_stderr", b"aa", "--accepting rule at line")],
      base={"code": "int main(void) { yyflexdebug = 1; while (yylex()) ; return 0; }\n"}),
    R("case-insensitive", "%option case-insensitive", ["-i"], [("run", b"AaA", "1\n")],
      base={"rules": "aaa   { return 1; }\n.|\\n  ;\n",
            "code": "int main(void) { printf(\"%d\\n\", yylex()); return 0; }\n"}),
    R("yylineno", "%option yylineno", ["--yylineno"], [("run", b"\n\n\n", "4\n")],
      base={"code": "int main(void) { while (yylex()) ; printf(\"%d\\n\", yylineno); return 0; }\n"}),
    R("array", "%array", ["--array"], [("compiles",)],
      base={"code": "typedef char probe_t[sizeof(yytext) > sizeof(char *) ? 1 : -1];\n" + MAIN}),
    R("pointer", "%pointer", None, [("compiles",)],
      base={"code": "typedef char probe_t[sizeof(yytext) == sizeof(char *) ? 1 : -1];\n" + MAIN},
      without_opt="%array"),
    R("reentrant", "%option reentrant", ["--reentrant"], [("compiles",), ("sym", "yylex_init")],
      base={"code": RMAIN}),
    R("bison-bridge", "%option reentrant bison-bridge", None, [("compiles",)],
      without_opt="%option reentrant",
      base={"top": "typedef union { int i; } YYSTYPE;\n#define YYSTYPE_IS_DECLARED 1",
            "rules": "a+   { yylval->i = 3; return 1; }\n.|\\n  ;\n",
            "code": "int main(void) { yyscan_t s; YYSTYPE v; yylex_init(&s); yylex(&v, s); yylex_destroy(s); return 0; }\n"}),
    R("bison-locations", "%option reentrant bison-bridge bison-locations", None, [("compiles",)],
      without_opt="%option reentrant",
      base={"top": "typedef union { int i; } YYSTYPE;\ntypedef struct { int first_line; } YYLTYPE;\n"
                   "#define YYSTYPE_IS_DECLARED 1\n#define YYLTYPE_IS_DECLARED 1",
            "rules": "a+   { yylval->i = 3; yylloc->first_line = 1; return 1; }\n.|\\n  ;\n",
            "code": "int main(void) { yyscan_t s; YYSTYPE v; YYLTYPE l; yylex_init(&s); yylex(&v, &l, s); "
                    "yylex_destroy(s); return 0; }\n"}),
    R("nounistd", "%option nounistd", None, [("output_lacks", "#include <unistd.h>")], invert=True),
    R("noline", "%option noline", ["-L"], [("output_lacks", "#line ")], invert=True),
    R("lex-compat", "%option lex-compat", ["-l"], [("compiles",)],
      base={"code": "#ifndef YY_FLEX_LEX_COMPAT\n#error lex-compat not announced\n#endif\n"
                    "typedef char probe_t[sizeof(yytext) > sizeof(char *) ? 1 : -1];\n"
                    "int main(void) { while (yylex()) ; return yylineno > 0 ? 0 : 1; }\n"}),
    R("posix-compat", "%option posix-compat", ["-X"], [("run", b"ababab", "1\n")],
      base={"rules": "ab{3}   { return 1; }\n.|\\n  { return 2; }\n",
            "code": "int main(void) { printf(\"%d\\n\", yylex()); return 0; }\n"}),
    R("always-interactive", "%option always-interactive", ["--always-interactive"],
      [("output_has", "yy_is_interactive = 1")]),
    R("never-interactive", "%option never-interactive", ["--never-interactive"],
      [("output_lacks", "isatty(")], invert=True),
    R("read", "%option read", ["--read"], [("output_has_re", r"read\(\s*fileno\(")]),
    R("7bit", "%option 7bit", ["-7"], [("output_has_re", r"yy_ec\[128\]")]),
    R("ecs-off", "%option noecs", ["--noecs"], [("output_lacks", "yy_ec[")], invert=True),
    R("meta-ecs-off", "%option nometa-ecs", ["--nometa-ecs"], [("output_lacks", "yy_meta[")], invert=True),
    R("full", "%option full", ["-f"], [("output_has_re", r"yy_nxt\[\]\[|yy_nxt\[\d+\]\[")]),
    R("fast", "%option fast", ["-F"], [("output_has", "yy_transition[")]),
    R("align", "%option align", ["-Ca"], [("output_lacks_re", r"flex_int16_t yy_(accept|base|def|nxt|chk)\[")],
      invert=True),
    R("verbose", "%option verbose", ["-v"], [("flex_stderr_has", "usage statistics")]),
    R("perf-report", "%option perf-report", ["-p"], [("flex_stderr_has", "performance")],
      base={"rules": "a+/b   { REJECT; }\n^x  ;\n.|\\n  ;\n"}),
    R("nowarn", "%option nowarn", ["-w"], [("flex_stderr_lacks", "cannot be matched")], invert=True,
      base={"rules": "a   { return 1; }\na   { return 2; }\n.|\\n ;\n"}),
    R("backup", "%option backup", ["-b"], [("file", "lex.backup")]),
    R("tables-file", '%option tables-file="probe.tbl"', ["--tables-file=probe.tbl"], [("file", "probe.tbl")]),
    R("header-file", '%option header-file="probe.h"', ["--header-file=probe.h"],
      [("file", "probe.h"), ("header_ok", "probe.h")],
      base={"code": "int helper3(void) { return 7; }\n"}),
    R("header-file-reentrant", '%option reentrant header-file="probe.h"', None,
      [("file", "probe.h"), ("header_ok_r", "probe.h")], without_opt="%option reentrant",
      base={"code": "int helper3(void) { return 7; }\n"}),
    R("header-file-c99", '%option emit="c99" header-file="probe.h"', None,
      [("file", "probe.h"), ("header_ok_c99", "probe.h")], without_opt='%option emit="c99"',
      base={"code": "int helper3(void) { return 7; }\n"}),
    R("outfile", '%option outfile="named.c"', None, [("file", "named.c")], no_o=True),
    R("stdout", "%option stdout", ["-t"], [("stdout_has", "yylex")], no_o=True),
    R("c++", "%option c++", ["-+"], [("output_has", "yyFlexLexer::yylex")], lang="c++",
      base={"code": "int main() { yyFlexLexer l; while (l.yylex()) ; return 0; }\n"}),
    R("yyclass", '%option c++ yyclass="Probe"', ["--yyclass=Probe"], [("output_has", "Probe::yylex")],
      lang="c++", without_opt="%option c++",
      base={"top": "", "code": "int main() { return 0; }\n",
            "defs": ""}),
    # (the language may be chosen after the class name: later on the command line, or in the file)
    R("yyclass-before-c++", '%option yyclass="Probe" c++', ["--yyclass=Probe", "-+"],
      [("output_has", "Probe::yylex")], lang="c++",
      base={"top": "", "code": "int main() { return 0; }\n", "defs": ""}),
    R("emit-c99", '%option emit="c99"', ["--emit=c99"], [("output_has", "struct yyguts_t")],
      base={"code": "int main(void) { yyscan_t s; yylex_init(&s); while (yylex(s)) ; yylex_destroy(s); return 0; }\n"}),
    R("reject", "%option reject", ["--reject"], [("output_has", "yy_state_buf")]),
    R("noyypanic", "%option noyypanic", None, [("compiles",)],
      base={"code": "static void yynoreturn yypanic(const char *msg) { (void) msg; exit(3); }\n" + MAIN,
            "top": "#include <stdlib.h>"}),
    R("yyterminate-c99", '%option emit="c99" yyterminate="return 77"', None, [("run", b"", "77\n")],
      without_opt='%option emit="c99"',
      base={"code": "int main(void) { yyscan_t s; yylex_init(&s); printf(\"%d\\n\", yylex(s)); return 0; }\n"}),
    R("extra-type-c99", '%option emit="c99" extra-type="struct probe *"', None, [("compiles",)],
      without_opt='%option emit="c99"',
      base={"top": "struct probe { int v; };",
            "code": "int main(void) { yyscan_t s; struct probe p, **pp; yylex_init(&s);\n"
                    "  { __typeof__(yyget_extra(s)) e = 0; pp = &e; (void) pp; }\n"
                    "  yyset_extra(&p, s); yylex_destroy(s); return 0; }\n"},
      cflags=["-Werror=incompatible-pointer-types"]),
    R("main-c99", '%option emit="c99" main', None, [("sym", "main")], without_opt='%option emit="c99"',
      base={"code": ""}),
    R("yymore-option", "%option yymore", None, [("output_has", "yy_more_flag")]),
]


def nm(obj):
    r = util.run(["nm", obj], env=util.clean_env(), timeout=60)
    glob_, allsyms = set(), set()
    for l in r.out.decode().splitlines():
        p = l.split()
        if len(p) >= 2:
            t, name = p[-2], p[-1]
            if t in "TDBRCSGW" and t != "U":
                glob_.add(name)
            if t.upper() in "TDBRCSGW":
                allsyms.add(name)
    return glob_, allsyms


class BuildOut:
    pass


def build(flex, d, text, cli, row):
    os.makedirs(d, exist_ok=True)
    sp = os.path.join(d, "p.l")
    util.write(sp, text)
    cxx = row.get("lang") == "c++"
    out = os.path.join(d, "p.cc" if cxx else "p.c")
    args = list(cli or [])
    b = BuildOut()
    if row.get("no_o"):
        with open(os.path.join(d, "stdout.txt"), "wb") as f:
            b.flex = util.run([flex.bin] + args + [sp], cwd=d, env=flex.env(tmpdir=d), timeout=60, stdout=f)
        b.stdout = util.read(os.path.join(d, "stdout.txt"), True)
        out = os.path.join(d, "named.c") if os.path.exists(os.path.join(d, "named.c")) else out
    else:
        cmd, b.flex = runner.flex_generate(flex, sp, out, args, cwd=d)
        b.stdout = b""
    b.err = b.flex.err.decode("latin1")
    b.out = out
    b.dir = d
    b.text = util.read(out, True).decode("latin1") if os.path.exists(out) else ""
    b.obj = None
    b.exe = None
    b.cc_err = ""
    if b.flex.rc == 0 and b.text:
        obj = os.path.join(d, "p.o")
        cc = ["g++" if cxx else "gcc", "-O0"] + (row.get("cflags") or ["-w"]) + [
            "-I", flex.include, "-c", out, "-o", obj]
        c = util.run(cc, cwd=d, env=util.clean_env(), timeout=120)
        b.cc_err = c.err.decode("latin1")
        if c.rc == 0:
            b.obj = obj
            exe = os.path.join(d, "p.exe")
            l = util.run(["g++" if cxx else "gcc", "-o", exe, obj], cwd=d, env=util.clean_env(), timeout=60)
            b.ld_err = l.err.decode("latin1")
            if l.rc == 0:
                b.exe = exe
    return b


def probe(flex, b, p):
    """True if the documented effect is observed on build b."""
    k = p[0]
    if k == "compiles":
        return b.obj is not None
    if k == "links":
        return b.exe is not None
    if b.flex.rc != 0:
        return False
    if k in ("sym", "anysym", "nosym_re", "noanysym", "noanysym_re"):
        if not b.obj:
            return False
        g, a = nm(b.obj)
        if k == "sym":
            return p[1] in g
        if k == "anysym":
            return p[1] in a
        if k == "noanysym":
            return p[1] not in a
        if k == "nosym_re":
            return not any(re.search(p[1], s) for s in g)
        if k == "noanysym_re":
            return not any(re.search(p[1], s) for s in a)
    if k in ("run", "run_fails", "run_stderr"):
        if not b.exe:
            return False
        x = util.run([b.exe], cwd=b.dir, env=util.clean_env(), stdin=p[1], timeout=20)
        if k == "run":
            return x.rc == 0 and x.out.decode("latin1") == p[2]
        if k == "run_fails":
            return x.rc != 0 and p[2] in x.err.decode("latin1")
        return p[2] in x.err.decode("latin1")
    if k == "output_has":
        return p[1] in b.text
    if k == "output_lacks":
        return p[1] not in b.text and bool(b.text)
    if k == "output_has_re":
        return re.search(p[1], b.text) is not None
    if k == "output_lacks_re":
        return re.search(p[1], b.text) is None and bool(b.text)
    if k == "flex_stderr_has":
        return p[1] in b.err
    if k == "flex_stderr_lacks":
        return p[1] not in b.err
    if k == "file":
        fp = os.path.join(b.dir, p[1])
        return os.path.exists(fp) and os.path.getsize(fp) > 0
    if k == "file_has":
        fp = os.path.join(b.dir, p[1])
        return os.path.exists(fp) and p[2] in util.read(fp, True)
    if k == "stdout_lacks":
        return bool(b.stdout) and p[1].encode() not in b.stdout
    if k == "stdout_has":
        return p[1].encode() in b.stdout
    if k in ("header_ok", "header_ok_r", "header_ok_c99"):
        h = os.path.join(b.dir, p[1])
        if not os.path.exists(h) or not b.obj:
            return False
        # the realistic use: another unit of the same program includes the header, calls the
        # API it declares and is linked with the scanner (whose user-code section defines
        # helper3); so the header must be self-contained, declare the API, and define nothing
        t = os.path.join(b.dir, "use.c")
        if k == "header_ok":
            body = ('yybuffer b = yy_scan_string("aa b"); int r = yylex(); r += yyleng + (yytext != 0) + '
                    '(yyin == 0); yy_delete_buffer(b); yylex_destroy();')
        else:
            body = ('yyscan_t s; int r; if (yylex_init(&s)) return 1; yy_scan_string("aa b", s); r = yylex(s); '
                    'r += yyget_leng(s) + (yyget_text(s) != 0) + (yyget_in(s) == 0); yylex_destroy(s);')
        util.write(t, '#include "%s"\n#include <stdio.h>\nextern int helper3(void);\n'
                      'int main(void) { %s printf("%%d %%d\\n", r, helper3()); return 0; }\n' % (p[1], body))
        c = util.run(["gcc", "-Wall", "-Werror=implicit-function-declaration", "-c", t, "-o", t + ".o"],
                     cwd=b.dir, env=util.clean_env(), timeout=60)
        if c.rc != 0:
            b.cc_err += c.err.decode("latin1")
            return False
        exe = os.path.join(b.dir, "use.exe")
        l = util.run(["gcc", "-o", exe, t + ".o", b.obj], cwd=b.dir, env=util.clean_env(), timeout=60)
        if l.rc != 0:
            b.cc_err += l.err.decode("latin1")
            return False
        x = util.run([exe], cwd=b.dir, env=util.clean_env(), timeout=20)
        if x.rc != 0 or x.out.decode("latin1").split() != ["5", "7"]:
            b.cc_err += "program using the header printed %r (exit %s)" % (x.out, x.rc)
            return False
        return True
    raise ValueError(k)


def row_worker(args):
    chk, idx, row = args
    flex = chk.flex("san")
    d = os.path.join(chk.scratch.path, "r%d" % idx)
    res = {"name": row["name"], "problems": [], "feats": {}, "evals": 0}
    base = dict(row["base"])
    opt = row["opt"]
    wo = row.get("without_opt", "")
    builds = {}
    builds["opt"] = build(flex, os.path.join(d, "opt"), spec(optline=opt, **base), [], row)
    builds["none"] = build(flex, os.path.join(d, "none"), spec(optline=wo, **base), [], row)
    if row["cli"] is not None:
        # other options of the %option line that are not part of the row stay in the file
        builds["cli"] = build(flex, os.path.join(d, "cli"), spec(optline=wo, **base), row["cli"], row)
    res["evals"] = len(builds)
    for p in row["probes"]:
        w = probe(flex, builds["opt"], p)
        n = probe(flex, builds["none"], p)
        if not w:
            b = builds["opt"]
            res["problems"].append(("no-effect", "%%option form: documented effect not observed by probe %r "
                                    "(flex rc=%s stderr=%r cc=%r)" % (p[:1] + p[2:] if p[0].startswith("run") else p,
                                                                      b.flex.rc, b.err[-200:], b.cc_err[-300:]),
                                    b))
        if n and p[0] not in ("compiles", "links") and not row.get("without_expect_fail"):
            # the probe cannot tell the difference: harness defect, not a verdict
            res["problems"].append(("blind-probe", "probe %r also holds without the option" % (p,), None))
        if p[0] in ("compiles", "links") and n and not row.get("invert") and row["name"] not in (
                "reentrant", "bison-bridge", "bison-locations", "yydecl", "noyywrap"):
            pass
        if "cli" in builds:
            c = probe(flex, builds["cli"], p)
            if not c:
                b = builds["cli"]
                res["problems"].append(("no-effect-cli", "command line form %s: documented effect not "
                                        "observed by probe %r (flex rc=%s stderr=%r cc=%r)" % (
                                            row["cli"], p[:2], b.flex.rc, b.err[-200:], b.cc_err[-300:]), b))
    if row.get("invert") and row["probes"] and row["probes"][0][0] in ("noanysym", "noanysym_re") and \
            builds["opt"].obj and builds["none"].obj:
        p0 = row["probes"][0]
        _, a_with = nm(builds["opt"].obj)
        _, a_none = nm(builds["none"].obj)
        removed = a_none - a_with
        added = a_with - a_none
        stray = [x for x in removed if not (x == p0[1] if p0[0] == "noanysym" else re.search(p0[1], x))]
        if stray or added:
            res["problems"].append(("collateral", "the option also changes other symbols of the scanner: "
                                    "removed %s added %s" % (sorted(stray), sorted(added)), builds["opt"]))
        else:
            res["feats"]["exact_removal"] = 1
    if "cli" in builds and builds["cli"].flex.rc == 0 and builds["opt"].flex.rc == 0 and not row.get("no_o"):
        a = re.sub(r'#line \d+ ".*"\n', "", builds["opt"].text)
        c = re.sub(r'#line \d+ ".*"\n', "", builds["cli"].text)
        # the %option line itself shifts user line numbers; compare code only
        a2 = [l for l in a.split("\n") if l.strip()]
        c2 = [l for l in c.split("\n") if l.strip()]
        if a2 == c2:
            res["feats"]["cli_identical"] = 1
        else:
            res["feats"]["cli_differs_textually"] = 1
    res["feats"]["rows"] = 1
    if not res["problems"]:
        res["feats"]["rows_ok"] = 1
    return res


VALUES = {"FILE": "probe_out.x", "PREFIX": "zz", "NAME": "Probe", "LANG": "c99", "your_type": "int",
          "xx": "xx", "zz": "zz"}


def manual_spellings():
    """Every spelling the manual's option list gives: ('cli', '--name[=value]') and
    ('opt', 'name[=\"value\"]'), from the @item lines of doc/flex.texi."""
    out = []
    try:
        texi = open(os.path.join(util.REPO, "doc", "flex.texi"), encoding="latin1").read()
    except OSError:
        return out
    for line in texi.splitlines():
        if not line.startswith("@item"):
            continue
        for m in re.finditer(r"(?<![-\w])(--[a-z+0-9][-a-z+0-9_]*)(\[?=([A-Za-z_]+)\]?)?", line):
            name, val = m.group(1), m.group(3)
            if name in ("--help", "--version"):
                continue
            out.append(("cli", name + ("=" + VALUES.get(val, "x") if val else "")))
        for m in re.finditer(r"@code\{%option ([a-z+0-9][-a-z+0-9_]*)(=\"?([A-Za-z_]+)\"?)?\}", line):
            name, val = m.group(1), m.group(3)
            out.append(("opt", name + ('="%s"' % VALUES.get(val, "x") if val else "")))
    seen = set()
    res = []
    for x in out:
        if x not in seen:
            seen.add(x)
            res.append(x)
    return res


def spelling_worker(args):
    chk, idx, (kind, text) = args
    flex = chk.flex("san")
    d = os.path.join(chk.scratch.path, "sp%d" % idx)
    os.makedirs(d, exist_ok=True)
    spec_ = os.path.join(d, "p.l")
    body = "%%\na ;\n%%\n"
    if kind == "opt":
        util.write(spec_, "%%option %s\n%s" % (text, body))
        cmd = [flex.bin, "-t", spec_]
    else:
        util.write(spec_, body)
        cmd = [flex.bin, "-t", text, spec_]
    r = util.run(cmd, cwd=d, env=flex.env(tmpdir=d), timeout=60)
    err = r.err.decode("latin1")
    bad = None
    if re.search(r"[Uu]nrecognized|[Uu]nknown option|ambiguous", err):
        bad = "the manual lists %s, flex says: %s" % (
            ("%option " + text) if kind == "opt" else text, err.strip()[:200])
    elif "AddressSanitizer" in err or "runtime error" in err or (r.rc is not None and r.rc < 0):
        bad = "flex crashed on %s: %s" % (text, err[-500:])
    shutil.rmtree(d, ignore_errors=True)
    return kind, text, bad


def run(pid, tier):
    chk = common.Check(pid, tier)
    chk.rule = RULE
    known.replay_known(chk)
    sp = manual_spellings()
    for kind, text, bad in util.pmap(spelling_worker, [(chk, i, x) for i, x in enumerate(sp)]):
        chk.count(1)
        chk.nontriv("spelling:%s:%s" % (kind, text))
        chk.feat1("manual_spellings_" + kind)
        if bad:
            chk.violation("spelling: " + bad, {"kind": "spelling", "option": text})
    chk.require("manual_spellings_cli", 30)
    chk.require("manual_spellings_opt", 40)
    names = set()
    for o in util.pmap(row_worker, [(chk, i, r) for i, r in enumerate(ROWS)]):
        chk.count(o["evals"])
        chk.feat(o["feats"])
        chk.nontriv(o["name"])
        names.add(o["name"])
        for kind, what, b in o["problems"]:
            if kind == "blind-probe":
                chk.inconc("row %s: %s" % (o["name"], what))
                continue

            def save(dst, b=b):
                if b is not None:
                    for f in ("p.l",):
                        if os.path.exists(os.path.join(b.dir, f)):
                            shutil.copy(os.path.join(b.dir, f), dst)
            chk.violation("option %s: %s" % (o["name"], what), {"kind": kind, "option": o["name"]}, save)
    compression_groups(chk)
    chk.sample({"rows": sorted(names)[:12], "total_rows": len(ROWS)})
    chk.extra["exhaustive"] = True
    chk.extra["option_rows"] = len(ROWS)
    chk.require("rows_ok", 40)
    chk.require("cli_identical", 10)
    chk.require("exact_removal", 20)
    return chk


# "-C options ... may be freely mixed, and are cumulative": argument lists the manual makes
# equivalent must give the same scanner, whether written as one option, several, or as %option;
# combinations it rules out must be refused however they are spelled.
C_EQUIV = [
    [["-Caem"], ["-Cem", "-Ca"], ["-Ce", "-Cm", "-Ca"], ["-Ca", "-Cm", "-Ce"], ["-Cae", "-Cm"],
     "%option align ecs meta-ecs"],
    [["-Cem"], ["-Ce", "-Cm"], ["-Cm", "-Ce"], [], "%option ecs meta-ecs"],
    [["-Cfe"], ["-Cf", "-Ce"], ["-Ce", "-Cf"]],
    [["-CFe"], ["-CF", "-Ce"], ["-Ce", "-CF"]],
    [["-Cfa"], ["-Cf", "-Ca"], ["-Ca", "-Cf"]],
    # (%option full / fast are -f / -F, which the manual defines as -Cfr / -CFr)
    [["-Cfer"], ["-Ce", "-Cf", "-Cr"], ["-Cr", "-Cfe"], "%option full ecs nometa-ecs"],
    [["-CFer"], ["-CF", "-Cr", "-Ce"], "%option fast ecs nometa-ecs"],
    [["-Cfar"], ["-Cr", "-Ca", "-Cf"], "%option full align noecs nometa-ecs"],
    [["-Cfr"], ["-f"], ["--full"], "%option full"],
    [["-CFr"], ["-F"], ["--fast"], "%option fast"],
    [["-Cer"], ["-Ce", "-Cr"], ["-Cr", "-Ce"], "%option ecs nometa-ecs read"],
    [["-Cm"], ["-C", "-Cm"], "%option noecs meta-ecs"],
    [["-C"], "%option noecs nometa-ecs"],
]
C_REFUSED = [["-Cem", "-Cf"], ["-Cfm"], ["-Cm", "-CF"], ["-Cf", "-CF"], ["-CfF"], ["-Ce", "-Cm", "-Cf"],
             "%option full meta-ecs", "%option full fast"]
C_SPEC_RULES = ("[a-z]+   return 1;\n[0-9]+   return 2;\n\"if\"|\"in\"   return 3;\n"
                "[ \\t\\n]+   ;\n.   return 4;\n")


def compression_groups(chk):
    flex = chk.flex("san")
    d = chk.scratch.sub("cgroups")

    def gen(tag, how):
        wd = os.path.join(d, tag)
        os.makedirs(wd, exist_ok=True)
        optline = how if isinstance(how, str) else ""
        args = [] if isinstance(how, str) else list(how)
        sp = os.path.join(wd, "p.l")
        util.write(sp, spec(optline="", rules=C_SPEC_RULES) if not optline else
                   spec(optline=optline, rules=C_SPEC_RULES))
        out = os.path.join(wd, "p.c")
        cmd, r = runner.flex_generate(flex, sp, out, args, cwd=wd)
        txt = util.read(out, True).decode("latin1") if (r.rc == 0 and os.path.exists(out)) else None
        if txt is not None:
            # the %option line shifts the user's line numbers: compare code only
            txt = "\n".join(l for l in re.sub(r'#line \d+ ".*"\n', "", txt).split("\n") if l.strip())
        return r, txt
    for gi, grp in enumerate(C_EQUIV):
        ref_r, ref = gen("g%d_0" % gi, grp[0])
        chk.count(1)
        if ref is None:
            chk.violation("option -C: flex failed for %s: %s" % (grp[0], ref_r.err[-300:]),
                          {"kind": "compression-group", "option": " ".join(grp[0])})
            continue
        for k, how in enumerate(grp[1:], 1):
            r, txt = gen("g%d_%d" % (gi, k), how)
            chk.count(1)
            chk.nontriv("cgroup:%s" % (how if isinstance(how, str) else " ".join(how) or "(default)"))
            if txt != ref:
                what = "fails (%s)" % r.err.decode("latin1")[-200:] if txt is None else "gives a different scanner"
                chk.violation("option -C: '%s' must mean the same as '%s' (the -C options are cumulative), "
                              "but it %s" % (how if isinstance(how, str) else " ".join(how),
                                             " ".join(grp[0]), what),
                              {"kind": "compression-group", "option": str(how)})
            else:
                chk.feat1("compression_spellings_identical")
    for k, how in enumerate(C_REFUSED):
        r, txt = gen("x%d" % k, how)
        chk.count(1)
        chk.nontriv("crefused:%s" % (how if isinstance(how, str) else " ".join(how)))
        if r.rc == 0 or not r.err.strip():
            chk.violation("option -C: the combination '%s' is ruled out by the manual but flex %s" % (
                how if isinstance(how, str) else " ".join(how),
                "accepted it" if r.rc == 0 else "failed without a message"),
                {"kind": "compression-refusal", "option": str(how)})
        else:
            chk.feat1("compression_contradiction_refused")
    chk.require("compression_spellings_identical", 10)
    chk.require("compression_contradiction_refused", 4)


def replay(d):
    print("replay: re-run the check (finite table)")
    return 2
