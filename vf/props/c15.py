"""C15 -- serialized tables: round trip, --tables-verify, file format, concatenation,
truncated / corrupt files."""
import os, shutil, struct
from .. import common, util, gen, pat, scripts, stream, runner, model, emit, known, tblfile
from . import lib, tokens

RULE = ("case = rule set (incl. REJECT, trailing context, yylineno so that every table kind is "
        "written) x table representation x {non-reentrant, reentrant}; the scanner built "
        "with --tables-file is run after yytables_fload and co-simulated with the same model as "
        "the in-code build; the file is parsed by an independent reader of the documented "
        "format; --tables-verify builds load their own file (must succeed) and a copy with one "
        "table entry changed (must fail); the set is found by name when other sets precede or "
        "follow it; fault enumeration: the file truncated at every byte offset (small files) or "
        "at sampled offsets, wrong magic, absurd sizes, unknown ids, bad flags - loading must "
        "fail without a sanitizer report or signal; the allocation ledger must be empty after "
        "yytables_destroy + yylex_destroy")

TABLES = ["", "-C", "-Ce", "-Cm", "-Cem", "-Cf", "-Cfe", "-CF", "-CFe", "-Ca", "-Cfa"]


def run_with_tables(built, case, wd, tag, tblpath, sched=None):
    return runner.run_scanner(built, case, wd, tag=tag, sched=sched,
                              env_extra={"VF_TABLES": tblpath})


def worker(args):
    """A case flex refuses (REJECT or variable trailing context with -Cf/-CF) or that is exempt
    (dangerous trailing context) is replaced by the next one with the same table
    representation and options, so that the table kinds observed do not depend on the seed."""
    chk, i, tier = args
    out = None
    for attempt in range(5):
        out = worker1((chk, i, i + 132 * attempt, tier))       # 132 = lcm(11, 22, 3, 4): same variant
        if not out.get("skipped"):
            break
    return out


def worker1(args):
    chk, i0, i, tier = args
    rng = chk.rng("case", i)
    out = {"i": i0, "problems": [], "feats": {}, "runs": 0, "inconc": []}

    def feat(k, n=1):
        out["feats"][k] = out["feats"].get(k, 0) + n

    def prob(kind, what, built=None, ro=None, case=None, extra=None):
        out["problems"].append((kind, what, built, ro, case, extra))
    p = gen.default_profile()
    p["nrules"] = (2, 7)
    p["depth"] = 2
    p["trail"] = 25
    p["bol"] = 15
    p["scs"] = rng.choice([0, 1])
    if i % 3 == 0:
        p["extra_alpha"] = b"\x00\xff"
    g, case = tokens.base_case(chk, rng, p)
    noln = False
    if i % 22 == 1:
        # uncompressed tables of a large rule set: offsets beyond 32767 -> 32-bit elements
        # (checked with flex alone; another rule set is drawn if this one stays below)
        from . import c01
        for attempt in range(4):
            case = c01.large_case(g, rng, case["seed"] + attempt)
            trial = dict(case)
            trial["opts"] = dict(case["opts"], flavour="nr", tables_file="s.tbl")
            td = os.path.join(chk.scratch.path, "wide%d_%d" % (i, attempt))
            os.makedirs(td, exist_ok=True)
            util.write(os.path.join(td, "s.l"), emit.Emitter(trial, "nr", None).spec().encode("latin1"))
            runner.flex_generate(chk.flex("san"), os.path.join(td, "s.l"), os.path.join(td, "s.c"),
                                 lib.tables_args(TABLES[i % len(TABLES)], 8), cwd=td, timeout=60)
            wide = False
            try:
                wide = any(t["width"] == 4 for t in
                           tblfile.parse(util.read(os.path.join(td, "s.tbl"), True))[0]["tables"])
            except (OSError, tblfile.FormatError, IndexError):
                pass
            shutil.rmtree(td, ignore_errors=True)
            if wide:
                break
    if i % 11 == 5:
        # more than 127 equivalence classes: yy_ec / yy_meta are arrays of unsigned char in the
        # scanner while the file holds them as signed 8-bit or as 16-bit elements
        nb = [150, 131, 200][(i // 11) % 3]
        bs = list(range(48, 48 + nb))
        case["rules"] = [{"scs": None, "bol": False, "pat": ("chr", b), "trail": None, "act": []}
                         for b in bs]
        case["defs"] = []
        g.alpha = bytes(bs[::7] + bs[-9:]) + b"\n "
        feat("many_classes:%d" % nb)
    if i % 11 == 2:
        # table entries exactly at an element-width boundary: with N user rules plus the
        # default rule the largest yy_accept entry (YY_END_OF_BUFFER) is N + 2; 126 rules
        # give exactly 128, the first value that does not fit a signed 8-bit element
        nkw = [126, 125, 127][(i // 11) % 3]
        case["rules"] = [{"scs": None, "bol": False, "pat": ("str", ("k%03d" % k).encode()),
                          "trail": None, "act": []} for k in range(nkw)]
        case["defs"] = []
        g.alpha = b"k0123456789 \n"
        feat("width_boundary_rules:%d" % nkw)
        if (i // 11) % 2 == 0:
            # ... and a file whose last table has 16/32-bit elements and ends exactly on a
            # 64-bit boundary (no padding after it): a truncation inside the very last element
            # is then the last thing a reader can notice.  Found by trying rule counts.
            noln = True         # (with %option yylineno the last table is the 8-bit eol table)
            for extra in range(0, 12):
                trial = dict(case)
                trial["rules"] = case["rules"] + [
                    {"scs": None, "bol": False, "pat": ("str", ("q%02d" % k).encode()), "trail": None,
                     "act": []} for k in range(extra)]
                trial["opts"] = dict(case["opts"], flavour="nr", tables_file="s.tbl", yylineno=False)
                td = os.path.join(chk.scratch.path, "tail%d_%d" % (i, extra))
                os.makedirs(td, exist_ok=True)
                util.write(os.path.join(td, "s.l"),
                           emit.Emitter(trial, "nr", None).spec().encode("latin1"))
                cmd, r = runner.flex_generate(chk.flex("san"), os.path.join(td, "s.l"),
                                              os.path.join(td, "s.c"),
                                              lib.tables_args(TABLES[i % len(TABLES)], 8), cwd=td)
                ok = False
                try:
                    ts = tblfile.parse(util.read(os.path.join(td, "s.tbl"), True))[0]["tables"]
                    last = ts[-1]
                    ok = last["width"] >= 2 and (12 + len(last["values"]) * last["width"]) % 8 == 0
                except (OSError, tblfile.FormatError, IndexError):
                    pass
                shutil.rmtree(td, ignore_errors=True)
                if ok:
                    case["rules"] = trial["rules"]
                    feat("last_table_wide_and_unpadded")
                    break
    mode = i % 3
    f = {"ret": 25}
    if mode == 1:
        f["reject"] = 40
    scripts.decorate(case, rng, f)
    case["opts"]["yylineno"] = (i % 2 == 0) and not noln
    case["opts"]["ledger"] = True
    ctx = gen.ctx_of(case)
    tb = TABLES[i % len(TABLES)]
    if i % 11 == 5:
        tb = ["-Ce", "", "-Cem", "-Cfe"][(i // 11) % 4]       # (representations that have yy_ec)
    full = "f" in tb or "F" in tb
    fl = ["nr", "r"][(i // 2) % 2]      # the c99 back end has no serialized tables (refused)
    flexargs = lib.tables_args(tb, 8)
    inputs = [{"sources": [g.make_input(case, ctx, maxlen=60)], "sched": [0]} for _ in range(4)]
    flex = chk.flex("san")
    wd = os.path.join(chk.scratch.path, "c%d" % i)
    refuse = tokens.std_refusals(tb)
    # A: in-code tables
    ca = dict(case)
    ca["opts"] = dict(case["opts"])
    ca["opts"]["flavour"] = fl
    A = runner.build_scanner(flex, ca, fl, os.path.join(wd, "A"), flexargs, "san",
                             util.Rng(case["seed"], "emit"))
    if not A.ok:
        if refuse({}, A) or (A.stage == "flex" and A.flex.timed_out):
            out["skipped"] = "refused/timeout"
            return out
        prob("build:" + A.stage, A.describe(), A, None, ca)
        return out
    if "dangerous trailing context" in A.warnings:
        out["skipped"] = "dangerous"
        return out
    # B: serialized tables
    cb = dict(case)
    cb["opts"] = dict(case["opts"])
    cb["opts"]["flavour"] = fl
    cb["opts"]["tables_file"] = "s.tbl"
    cb["driver"] = {"init": [("open", 0), ("tables",)], "fini": [("tables_destroy",)]}
    B = runner.build_scanner(flex, cb, fl, os.path.join(wd, "B"), flexargs, "san",
                             util.Rng(case["seed"], "emit"))
    if not B.ok:
        prob("build-tables:" + B.stage, B.describe(), B, None, cb)
        return out
    tbl = os.path.join(wd, "B", "s.tbl")
    if not os.path.exists(tbl) or os.path.getsize(tbl) == 0:
        prob("no-tables-file", "--tables-file given, flex exit 0, but %s is missing/empty" % tbl, B, None, cb)
        return out
    data = util.read(tbl, True)
    feat("tables:" + (tb or "default"))
    feat("flavour:" + fl)
    # format
    try:
        sets = tblfile.parse(data)
        if len(sets) != 1:
            prob("format", "expected one table set, found %d" % len(sets), B, None, cb)
        else:
            s0 = sets[0]
            if s0["name"] != b"yytables":
                prob("format", "set name %r, documented default is 'yytables'" % s0["name"], B, None, cb)
            for t in s0["tables"]:
                feat("table:" + t["name"])
                feat("width:%d" % t["width"])
                if t["flags"] & tblfile.STRUCT:
                    feat("struct_table")
                if t["flags"] & tblfile.PTRANS:
                    feat("ptrans_table")
            feat("format_ok")
    except tblfile.FormatError as e:
        sets = None
        prob("format", "tables file violates the documented layout: %s" % e, B, None, cb,
             {"file": tbl})
    # round trip
    rsA = model.RuleSet(ca)
    for ii, inp in enumerate(inputs):
        c1 = stream.with_input(ca, inp)
        ro = runner.run_scanner(A, c1, os.path.join(wd, "A"), tag="i%d" % ii)
        out["runs"] += 1
        okA = ro.kind in ("ok", "fatal")
        if okA:
            okA, info = model.check(c1, ro.log, rsA)
        if not okA:
            prob("in-code", "in-code build diverges from the model (C01/C02 territory): %s %s" % (
                ro.kind, ro.detail[:300]), A, ro, c1)
            return out
        c2 = stream.with_input(cb, inp)
        ro2 = run_with_tables(B, c2, os.path.join(wd, "B"), "i%d" % ii, tbl)
        out["runs"] += 1
        if ro2.kind not in ("ok", "fatal"):
            prob("serialized-run:" + ro2.kind, ro2.detail[:1500], B, ro2, c2)
            return out
        ok, info = model.check(c2, ro2.log, rsA)
        if not ok:
            prob("round-trip", "scanner with serialized tables differs from the in-code one: %s" %
                 stream.fmt_div(info), B, ro2, c2)
            return out
        out["feats"].update({k: out["feats"].get(k, 0) + v for k, v in info["features"].items()})
        if "Z" not in [l.strip() for l in ro2.log.splitlines()[-4:]]:
            feat("run_ended_before_destroy")      # budget or fatal: destroy never ran
        elif "A live 0 " not in ro2.log and "A live 0\n" not in ro2.log:
            prob("ledger", "memory still held after yytables_destroy + yylex_destroy: %s" % [
                l for l in ro2.log.splitlines() if l.startswith("A ")], B, ro2, c2)
        else:
            feat("ledger_empty_after_destroy")
    inp0 = inputs[0]
    cB0 = stream.with_input(cb, inp0)
    # concatenation: another set (different name) before / after
    if i % 2 == 0 and sets:
        oth = os.path.join(wd, "other")
        os.makedirs(oth, exist_ok=True)
        util.write(os.path.join(oth, "o.l"), "%option prefix=\"zz\" tables-file=\"o.tbl\"\n%%\nfoo|bar+  ;\n%%\n")
        cmd, r = runner.flex_generate(flex, os.path.join(oth, "o.l"), os.path.join(oth, "o.c"), [], cwd=oth)
        if r.rc == 0 and os.path.exists(os.path.join(oth, "o.tbl")):
            od = util.read(os.path.join(oth, "o.tbl"), True)
            try:
                os_ = tblfile.parse(od)
                if os_[0]["name"] != b"zztables":
                    prob("format", "prefix zz: set name %r, documented 'zztables'" % os_[0]["name"])
            except tblfile.FormatError as e:
                prob("format", "other tables file: %s" % e)
            for order, blob in (("other+own", od + data), ("own+other", data + od),
                                ("other+other+own", od + od + data)):
                cp = os.path.join(wd, "B", "cat.tbl")
                util.write(cp, blob)
                ro3 = run_with_tables(B, cB0, os.path.join(wd, "B"), "cat", cp)
                out["runs"] += 1
                ok = ro3.kind in ("ok", "fatal")
                if ok:
                    ok, info = model.check(cB0, ro3.log, rsA)
                if not ok:
                    prob("concatenation", "own set not found/loaded in concatenation %s: %s %s" % (
                        order, ro3.kind, (ro3.log[:200] + ro3.detail[:600])), B, ro3, cB0)
                else:
                    feat("concatenation_ok")
    # tables-verify
    if i % 3 != 2 or i % 11 == 5:
        cv = dict(cb)
        cv["opts"] = dict(cb["opts"])
        cv["opts"]["tables_verify"] = True
        V = runner.build_scanner(flex, cv, fl, os.path.join(wd, "V"), flexargs, "san",
                                 util.Rng(case["seed"], "emit"))
        if not V.ok:
            prob("build-verify:" + V.stage, V.describe(), V, None, cv)
        else:
            vt = os.path.join(wd, "V", "s.tbl")
            cV0 = stream.with_input(cv, inp0)
            ro4 = run_with_tables(V, cV0, os.path.join(wd, "V"), "v", vt)
            out["runs"] += 1
            ok = ro4.kind in ("ok", "fatal")
            if ok:
                ok, info = model.check(cV0, ro4.log, rsA)
            if not ok:
                prob("verify-own", "--tables-verify scanner rejects (or mis-scans with) its own tables "
                     "file: %s %s" % (ro4.kind, ro4.log[:300] + ro4.detail[:500]), V, ro4, cV0)
            else:
                feat("verify_pass")
            # one entry of one table changed
            vd = bytearray(util.read(vt, True))
            try:
                vs = tblfile.parse(bytes(vd))
                cands = [t for t in vs[0]["tables"] if len(t["values"]) > 2]
                t = cands[(i // 3) % len(cands)]
                k = rng.below(len(t["values"]))
                pos = t["data_offset"] + k * t["width"] + t["width"] - 1
                vd[pos] ^= 0x01
                bad = os.path.join(wd, "V", "bad.tbl")
                util.write(bad, bytes(vd))
                ro5 = run_with_tables(V, cV0, os.path.join(wd, "V"), "vb", bad)
                out["runs"] += 1
                if ro5.kind not in ("ok", "fatal"):
                    prob("verify-run:" + ro5.kind, ro5.detail[:1000], V, ro5, cV0)
                elif "X tables 1" not in ro5.log and "\nF " not in ro5.log:
                    prob("verify-miss", "--tables-verify reported success although entry %d of table %s "
                         "differs from the in-code table" % (k, t["name"]), V, ro5, cV0)
                else:
                    feat("verify_fail_detected")
                    feat("verify_fail:" + t["name"])
            except tblfile.FormatError:
                pass
    # fault enumeration: truncations and corruptions
    n = len(data)
    if i % 4 == 0 or i % 11 == 2 or tier != "quick":
        if n <= 2600:
            cuts = list(range(0, n))
            feat("truncation_exhaustive_files")
        else:
            # (every offset inside the last elements and padding of the file, the set header,
            # and a sample of the rest)
            cuts = sorted(set(list(range(0, 40)) + list(range(max(0, n - 24), n)) +
                              [rng.below(n) for _ in range(120)]))
        if tier == "quick" and len(cuts) > 700:
            cuts = cuts[:200] + rng.sample(cuts[200:-24], 476) + cuts[-24:]
        cdir = os.path.join(wd, "B")
        for cpos in cuts:
            fp = os.path.join(cdir, "trunc.tbl")
            util.write(fp, data[:cpos])
            ro6 = run_with_tables(B, cB0, cdir, "t", fp)
            out["runs"] += 1
            feat("truncations")
            if ro6.kind not in ("ok", "fatal"):
                prob("truncated:" + ro6.kind, "file cut at byte %d of %d: %s" % (cpos, n, ro6.detail[:1500]),
                     B, ro6, cB0, {"cut": cpos})
                break
            if "A badfree" in ro6.log:
                prob("truncated:badfree", "file cut at byte %d of %d: the loader handed yyfree() a pointer "
                     "that is not a live block (double free)" % (cpos, n), B, ro6, cB0, {"cut": cpos})
                break
            if "X tables 1" not in ro6.log and "\nF " not in ro6.log:
                prob("truncated-accepted", "file cut at byte %d of %d loaded 'successfully': %s" % (
                    cpos, n, ro6.log[:200]), B, ro6, cB0, {"cut": cpos})
                break
        corr = []

        def patched(off, fmt, val):
            b = bytearray(data)
            b[off:off + struct.calcsize(fmt)] = struct.pack(fmt, val)
            return bytes(b)
        corr.append(("magic", patched(0, ">I", 0xF13C57B0)))
        corr.append(("magic-swapped", patched(0, "<I", 0xF13C57B1)))
        corr.append(("hsize0", patched(4, ">I", 0)))
        corr.append(("hsize-huge", patched(4, ">I", 0xFFFFFFF0)))
        corr.append(("hsize-small", patched(4, ">I", 8)))
        corr.append(("ssize0", patched(8, ">I", 0)))
        corr.append(("ssize-huge", patched(8, ">I", 0x7FFFFFF0)))
        if sets:
            t0 = sets[0]["tables"][0]
            corr.append(("table-id-0", patched(t0["offset"], ">H", 0)))
            corr.append(("table-id-99", patched(t0["offset"], ">H", 99)))
            corr.append(("flags-0", patched(t0["offset"] + 2, ">H", 0)))
            corr.append(("flags-all", patched(t0["offset"] + 2, ">H", 0xFFFF)))
            corr.append(("lolen-huge", patched(t0["offset"] + 8, ">I", 0x7FFFFFFF)))
            corr.append(("hilen-huge", patched(t0["offset"] + 4, ">I", 0x7FFFFFFF)))
            corr.append(("name-changed", data.replace(b"yytables\0", b"xxtables\0", 1)))
        for nm, blob in corr:
            fp = os.path.join(cdir, "corr.tbl")
            util.write(fp, blob)
            ro7 = run_with_tables(B, cB0, cdir, "k", fp)
            out["runs"] += 1
            feat("corruptions")
            promised = nm in ("magic", "magic-swapped", "name-changed")
            if ro7.kind not in ("ok", "fatal"):
                if promised:
                    prob("corrupt:" + ro7.kind, "corruption %s: %s" % (nm, ro7.detail[:1500]), B, ro7, cB0,
                         {"corruption": nm})
                else:
                    # the property promises a clean failure for truncated files and a wrong
                    # magic number only; other corruptions are recorded, not judged
                    feat("unpromised_corruption_crash:" + nm)
            elif "A badfree" in ro7.log:
                if promised:
                    prob("corrupt:badfree", "corruption %s: yyfree() of a pointer that is not a live block" % nm,
                         B, ro7, cB0, {"corruption": nm})
                else:
                    feat("unpromised_corruption_crash:" + nm)
            elif promised and "X tables 1" not in ro7.log and "\nF " not in ro7.log:
                prob("corrupt-accepted", "corruption %s: load reported success" % nm, B, ro7, cB0)
            elif promised:
                feat("bad_magic_or_name_rejected")
    out["sample"] = {"case": i, "tables": tb or "default", "flavour": fl, "file_bytes": n,
                     "tables_in_file": [t["name"] for t in sets[0]["tables"]] if sets else None}
    if not out["problems"]:
        shutil.rmtree(wd, ignore_errors=True)
    return out


def run(pid, tier):
    chk = common.Check(pid, tier, level="fault_enumeration")
    chk.rule = RULE
    known.replay_known(chk)
    n = 44 if tier == "quick" else 600
    for o in util.pmap(worker, [(chk, i, tier) for i in range(n)]):
        if o.get("skipped"):
            chk.feat1("skipped:" + o["skipped"])
            continue
        chk.count(o["runs"])
        chk.feat(o["feats"])
        for k in range(o["runs"]):
            chk.nontriv("%d/%d" % (o["i"], k))
        if "sample" in o:
            chk.sample(o["sample"], limit=4)
        for kind, what, built, ro, case, extra in o["problems"]:
            def save(d, built=built, ro=ro, case=case, extra=extra):
                runner.save_replay(d, built, case or {}, ro, {"problem": kind, "extra": extra})
            chk.violation("case %d: %s: %s" % (o["i"], kind, what), {"kind": kind.split(":")[0]}, save)
    for t in ("accept", "base", "chk", "def", "ec", "meta", "nxt", "rule_can_match_eol",
              "start_state_list", "transition", "acclist", "nul_trans"):
        chk.require("table:" + t)
    for k in ("width:1", "width:2", "width:4", "struct_table", "ptrans_table", "format_ok",
              "verify_pass", "verify_fail_detected", "concatenation_ok", "truncation_exhaustive_files",
              "ledger_empty_after_destroy", "last_table_wide_and_unpadded", "many_classes:150"):
        chk.require(k)
    chk.require("truncations", 300)
    chk.require("corruptions", 20)
    chk.require("bad_magic_or_name_rejected", 3)
    return chk


def replay(d):
    return lib.replay(d)
