"""C14 -- single allocation failures and read failures are reported, never absorbed."""
import os, re, shutil, errno
from .. import common, util, gen, scripts, stream, runner, model, emit, known
from . import lib, tokens

RULE = ("fault enumeration: for each scenario (scanner build x input; workloads of C03/C05/C07/"
        "C08/C11 with noyyalloc/noyyrealloc/noyyfree, a serialized-tables load, yylex_init) the "
        "number n of allocation requests of the undisturbed run is counted, then the run is "
        "repeated for EVERY k = 1..n with the k-th request returning NULL; read faults: EIO and "
        "EINTR injected at EVERY read index of the stdio (fread and getc) and read(2) paths.  "
        "Oracle: an allocation/EIO fault must end in the fatal-error hook with the documented "
        "message (or the documented error return of yylex_init / yytables_fload), the events "
        "logged before it must be a prefix of the undisturbed log, and no sanitizer report or "
        "signal may occur; EINTR must leave the event log identical")


def alloc_requests(log):
    m = re.findall(r"^# alloc_requests(?:_at_exit)? (\d+)", log, re.M)
    return max(int(x) for x in m) if m else 0


def events(log):
    return [l for l in log.splitlines() if l and not l.startswith("#") and not l.startswith("A ")]


def scenario(chk, i):
    rng = chk.rng("scn", i)
    kind = i % 9
    if kind == 8:
        # REJECT scanner, tiny first buffer, then a switch to a buffer of the default size: the
        # state buffer is regrown by yy_switch_to_buffer() and long tokens follow
        job = tokens.c11_job(chk, rng, 6 * i + 4)          # (index = 4 mod 6: the REJECT variant)
        case = job["case"]
        case["opts"]["ledger"] = True
        scripts.ensure_returns(case, rng, 100)
        case["driver"] = {"init": [("open_buf", 0)],
                          "after": [[("x", ("gcreate", 1, 1, 0)), ("x", ("gswitch", 1))]],
                          "fini": [("gdelete_all",)]}
        case["wrap"] = [("pop",)] * 10
        cfg = dict(job["configs"][0])
        long_ = bytes(rng.choice(b"xy") for _ in range(rng.rint(60, 200)))
        inp = {"sources": [b"ab ab ab\n", b"ab " + long_ + b" ab " + long_ + b"\n", b"", b"", b"", b""],
               "strings": job["inputs"][0].get("strings", []), "sched": [0], "bufsize": rng.choice([4, 8, 16])}
        return "reject_regrow", case, cfg, inp
    if kind == 7:
        # buffer growth: tiny initial buffer, one long token (never a REJECT scanner: i*6)
        job = tokens.c03_job(chk, rng, i * 6)
        case = job["case"]
        case["opts"]["ledger"] = True
        case.setdefault("driver", {})
        case["driver"]["fini"] = list(case["driver"].get("fini", [])) + [("gdelete_all",)]
        cfg = dict([c for c in job["configs"] if c["flavour"] != "cxx" and not c.get("deliv")][0])
        cfg.pop("input_filter", None)
        cfg.pop("input_flags", None)
        inp = {"sources": [b"ab " + b"xy" * rng.rint(40, 200) + b" ab\n"], "sched": [0],
               "bufsize": rng.choice([4, 8, 16])}
        return "buffer_growth", case, cfg, inp
    if kind == 6:
        # serialized tables load
        from . import c15
        tbl_args = ()
        if (i // 9) % 2 == 1:
            # full / fast tables: other table kinds in the file (yy_nxt rows, the struct table
            # yy_transition, yy_start_state_list), each with its own allocation when loaded
            from . import lib as lib_
            job = tokens.c04_job(chk, rng, 4 * (i // 9))
            tbl_args = lib_.tables_args(["-CF", "-Cf", "-CFe", "-Cfe"][(i // 18) % 4], 8)
        else:
            job = tokens.c07_job(chk, rng, i)
        job["case"]["opts"]["tables_file"] = "s.tbl"
        job["case"]["driver"] = dict(job["case"].get("driver", {}))
        job["case"]["driver"]["init"] = [("open", 0), ("tables",)]
        job["case"]["driver"]["fini"] = [("tables_destroy",)]
        job["configs"] = [{"flavour": ["nr", "r"][i % 2], "flexargs": tbl_args}]
        name = "tables_load" if not tbl_args else "tables_load_full"
    else:
        name, mk = [("delivery", tokens.c03_job), ("start_stack", tokens.c05_job),
                    ("reject", tokens.c07_job), ("stream_edits", tokens.c08_job),
                    ("buffers", tokens.c11_job), ("eof_chain", tokens.c10_job)][kind]
        if name == "start_stack" and (i // 9) % 2 == 0:
            # the deep variant: 30-130 pushes, so the start-condition stack is reallocated
            job = mk(chk, rng, 7 * (i // 9) + 3)
            name = "start_stack_deep"
        else:
            job = mk(chk, rng, i)
    case = job["case"]
    case["opts"]["ledger"] = True
    case.setdefault("driver", {})
    case["driver"]["fini"] = list(case["driver"].get("fini", [])) + [("gdelete_all",)]
    cands = [c for c in job["configs"] if c["flavour"] != "cxx" and not c.get("deliv")]
    if cands:
        cfg = dict(cands[0])
    else:
        cfg = dict(job["configs"][0])       # (the C++ class takes no part in the ledger runs)
        cfg["flavour"] = "r"
    cfg.pop("input_filter", None)
    cfg.pop("input_flags", None)
    inp = job["inputs"][i % len(job["inputs"])]
    if name == "buffers":
        # the longest input: more buffer operations, longer tokens after a switch to a larger
        # buffer (a REJECT scanner's state buffer is regrown there)
        inp = max(job["inputs"], key=lambda x: sum(len(s_) for s_ in x["sources"]))
    if name == "delivery":
        # tiny initial buffer and a long token: the growing yyrealloc calls of
        # yy_get_next_buffer() are among the enumerated requests
        # (REJECT scanners never grow their buffer)
        cands = [x for x in job["inputs"] if 0 < x.get("bufsize", 0) <= 16 and
                 any(b"xxxxx" in s_ or b"yyyyy" in s_ or b"xyxy" in s_ or len(s_) > 100
                     for s_ in x["sources"])]
        if cands and not case["opts"].get("uses_reject"):
            inp = cands[i % len(cands)]
    return name, case, cfg, inp


def alloc_worker(args):
    """A scenario that cannot be used (flex refuses the generated rule set, dangerous
    trailing context, ...) is replaced by the next one of the same kind, so that the kinds
    observed do not depend on the seed."""
    chk, i = args[0], args[1]
    out = None
    for attempt in range(5):
        out = alloc_worker1((chk, i, i + 9000 * attempt))      # (9000 keeps i % 9, the kind)
        if not out.get("skipped"):
            break
    return out


def alloc_worker1(args):
    chk, i0, i = args
    name, case, cfg, inp = scenario(chk, i)
    flex = chk.flex("san")
    wd = os.path.join(chk.scratch.path, "a%d" % i)
    out = {"i": i0, "name": name, "runs": 0, "problems": [], "feats": {}, "k": 0}

    def feat(k, n=1):
        out["feats"][k] = out["feats"].get(k, 0) + n
    c2 = dict(case)
    c2["opts"] = dict(case["opts"])
    c2["opts"]["flavour"] = cfg["flavour"]
    for k, v in cfg.get("opts", {}).items():
        c2["opts"][k] = v
    b = runner.build_scanner(flex, c2, cfg["flavour"], wd, cfg.get("flexargs", ()), "san",
                             util.Rng(case["seed"], "emit"))
    if not b.ok:
        out["skipped"] = "build: " + b.describe()[:200]
        return out
    if "dangerous trailing context" in b.warnings:
        out["skipped"] = "dangerous"
        return out
    ci = stream.with_input(c2, inp)
    env = {"VF_TABLES": os.path.join(wd, "s.tbl")}
    base = runner.run_scanner(b, ci, wd, tag="base", sched=inp.get("sched"), bufsize=inp.get("bufsize", 0),
                              env_extra=env)
    out["runs"] += 1
    if base.kind not in ("ok", "fatal"):
        out["skipped"] = "undisturbed run: " + base.kind
        return out
    n = alloc_requests(base.log)
    bev = events(base.log)
    out["k"] = n
    feat("scenario:" + name)
    if sum(1 for e in bev if e.startswith("P ")) > 25:
        feat("stack_regrown_in_undisturbed_run")
    feat("flavour:" + cfg["flavour"])
    for k in range(1, n + 1):
        ro = runner.run_scanner(b, ci, wd, tag="k%d" % k, sched=inp.get("sched"), alloc_fail_at=k,
                                bufsize=inp.get("bufsize", 0), env_extra=env)
        out["runs"] += 1
        feat("alloc_faults")
        ev = events(ro.log)
        injected = "# alloc fault injected" in ro.log
        if not injected and ro.kind not in ("sanitizer", "signal", "timeout", "harness"):
            feat("fault_not_reached")
            continue
        bad = None
        if ro.kind in ("sanitizer", "signal", "timeout", "exit", "harness"):
            bad = ("alloc:" + ro.kind, ro.detail[:1800])
        else:
            last = ev[-1] if ev else ""
            if last.startswith("F nomem"):
                feat("fatal_nomem")
                m = re.search(r"# fatal: (.*)", ro.log)
                if m:
                    feat("msg:" + m.group(1).strip()[:60])
            elif last.startswith("F ") and "scanner input buffer overflow" in (
                    ro.log + ro.res.err.decode("latin1")):
                # yy_get_next_buffer: the realloc that grows the buffer returned NULL and the
                # very next statement reports it (with this message) through the hook
                feat("fatal_buffer_grow")
            elif last.startswith("F init"):
                en = int(last.split()[2]) if len(last.split()) > 2 else 0
                if en != errno.ENOMEM:
                    bad = ("init-errno", "yylex_init failed with errno %d, documented ENOMEM" % en)
                else:
                    feat("init_enomem")
            elif last.startswith("X tables 1") or (ev and any(e.startswith("X tables 1") for e in ev)):
                feat("tables_load_error_return")
            elif last == "Z":
                # the run completed: acceptable only if the failed request was not needed,
                # i.e. the stream is exactly the undisturbed one
                if ev == bev:
                    # the same stream as without the fault: the failure was swallowed (for
                    # instance by keeping a smaller old block while recording the new size);
                    # the property asks for a report of every failed request
                    bad = ("absorbed", "allocation request %d failed, nothing was reported and the "
                           "scanner ran to the end" % k)
                else:
                    bad = ("absorbed", "allocation request %d failed, the scanner carried on and "
                           "produced a different stream" % k)
            else:
                bad = ("no-report", "allocation request %d failed; run ended with %r (exit %s) and no "
                       "fatal-error / error return" % (k, last, ro.res.rc))
            if not bad:
                # nothing wrong may be delivered before the report
                pre = [e for e in ev if not e.startswith("F ")]
                if last == "Z":
                    pre = []
                if pre and pre != bev[:len(pre)]:
                    # tolerate the final partial divergence only at the F line
                    j = next((x for x in range(min(len(pre), len(bev))) if pre[x] != bev[x]), None)
                    if j is not None:
                        bad = ("corrupt-before-report", "event %d differs from the undisturbed run before "
                               "the failure was reported: %r vs %r" % (j, pre[j], bev[j]))
        if bad:
            out["problems"].append((bad[0], "scenario %s, request %d of %d: %s" % (name, k, n, bad[1]),
                                    b, ro, ci))
            break
    shutil.rmtree(wd, ignore_errors=True) if not out["problems"] else None
    return out


def read_worker(args):
    chk, i = args
    rng = chk.rng("read", i)
    path = ["stdio_fread", "stdio_getc", "read2", "c99_fread"][i % 4]
    job = tokens.c01_like(chk, rng, i) if hasattr(tokens, "c01_like") else tokens.c08_job(chk, rng, i)
    case = job["case"]
    # single source, no yywrap continuation
    case["wrap"] = []
    case["eofs"] = []
    opts = {"input": "stdio"}
    fl = "nr"
    flags = 0
    if path == "stdio_getc":
        opts["always_interactive"] = True
    elif path == "stdio_fread":
        opts["never_interactive"] = True
    elif path == "read2":
        opts["use_read"] = True
        fl = "r"
        flags = 2
    else:
        fl = "c99"
    for k in ("array", "bufsize", "yylmax"):
        case["opts"].pop(k, None)
    flex = chk.flex("san")
    wd = os.path.join(chk.scratch.path, "r%d" % i)
    out = {"i": i, "name": path, "runs": 0, "problems": [], "feats": {}}

    def feat(k, n=1):
        out["feats"][k] = out["feats"].get(k, 0) + n
    c2 = dict(case)
    c2["opts"] = dict(case["opts"])
    c2["opts"].update(opts)
    c2["opts"]["flavour"] = fl
    b = runner.build_scanner(flex, c2, fl, wd, (), "san", util.Rng(case["seed"], "emit"))
    if not b.ok:
        out["skipped"] = "build: " + b.describe()[:300]
        return out
    if "dangerous trailing context" in b.warnings:
        out["skipped"] = "dangerous"
        return out
    inp = job["inputs"][0]
    src = inp["sources"][0]
    ci = stream.with_input(c2, {"sources": [src]})
    sched = [rng.choice([1, 2, 3, 5, 64])]
    base = runner.run_scanner(b, ci, wd, tag="base", sched=sched, flags=flags)
    out["runs"] += 1
    ok, info = (False, None)
    if base.kind in ("ok", "fatal"):
        ok, info = model.check(ci, base.log)
    if not ok:
        out["problems"].append(("undisturbed", "%s path: undisturbed run fails: %s %s" % (
            path, base.kind, info or base.detail[:500]), b, base, ci))
        return out
    bev = events(base.log)
    m = re.search(r"", "")
    # number of read requests: count by running with a fault far away is unnecessary --
    # enumerate indices until the fault is no longer reached
    feat("path:" + path)
    for idx in range(0, 400):
        reached = False
        for en, nm in ((errno.EINTR, "EINTR"), (errno.EIO, "EIO")):
            ro = runner.run_scanner(b, ci, wd, tag="f", sched=sched, flags=flags,
                                    read_faults=[(0, idx, en)])
            out["runs"] += 1
            ev = events(ro.log)
            if ro.kind in ("sanitizer", "signal", "timeout", "harness"):
                out["problems"].append(("read:" + ro.kind, "%s at read %d on %s: %s" % (
                    nm, idx, path, ro.detail[:1500]), b, ro, ci))
                return out
            if nm == "EINTR":
                if ev != bev:
                    j = next((x for x in range(min(len(ev), len(bev))) if ev[x] != bev[x]),
                             min(len(ev), len(bev)))
                    out["problems"].append(("eintr", "EINTR at read %d on the %s path changed the token "
                                            "stream at event %d: %r vs %r" % (
                                                idx, path, j, ev[j:j + 1], bev[j:j + 1]), b, ro, ci))
                    return out
                feat("eintr_identical")
            else:
                if "# readfault " not in ro.log:
                    continue        # read index beyond the last read: fault not reached
                reached = True
                last = ev[-1] if ev else ""
                if not last.startswith("F readfail") and not any(e.startswith("W ") for e in ev):
                    # (the error arrived together with some characters and the scanner stopped
                    # for its own reasons before it read again: nothing to decide)
                    feat("eio_no_later_read")
                    continue
                if not last.startswith("F readfail"):
                    out["problems"].append(("eio", "EIO at read %d on the %s path: run ended with %r "
                                            "(exit %s), expected the fatal-error hook with 'input in "
                                            "flex scanner failed'" % (idx, path, last, ro.res.rc), b, ro, ci))
                    return out
                pre = ev[:-1]
                if pre != bev[:len(pre)]:
                    out["problems"].append(("eio-corrupt", "EIO at read %d on %s: events before the "
                                            "failure differ from the undisturbed run" % (idx, path),
                                            b, ro, ci))
                    return out
                feat("eio_reported")
        if not reached:
            break
        feat("read_indices")
    shutil.rmtree(wd, ignore_errors=True)
    return out


INIT_SPEC = r"""%option noyywrap reentrant noyyalloc noyyrealloc noyyfree
%{
#include <errno.h>
#include <stdio.h>
#include <stdlib.h>
static int fail_at, count;
%}
%%
a ;
%%
void *yyalloc(yy_size_t n, yyscan_t s) { (void) s; if (++count == fail_at) return NULL; return malloc(n); }
void *yyrealloc(void *p, yy_size_t n, yyscan_t s) { (void) s; if (++count == fail_at) return NULL; return realloc(p, n); }
void yyfree(void *p, yyscan_t s) { (void) s; free(p); }
int main(void) {
    yyscan_t s; int r, x = 5;
    errno = 0; r = yylex_init(NULL); printf("init(NULL) %d %d\n", r != 0, errno == EINVAL);
    errno = 0; r = yylex_init_extra(&x, NULL); printf("init_extra(NULL) %d %d\n", r != 0, errno == EINVAL);
    fail_at = 1; count = 0; errno = 0; r = yylex_init(&s); printf("init nomem %d %d\n", r != 0, errno == ENOMEM);
    fail_at = 1; count = 0; errno = 0; r = yylex_init_extra(&x, &s); printf("init_extra nomem %d %d\n", r != 0, errno == ENOMEM);
    fail_at = 0; count = 0; errno = 0; r = yylex_init_extra(&x, &s); printf("init ok %d %d\n", r == 0, yyget_extra(s) == (void *) &x);
    yylex_destroy(s);
    return 0;
}
"""
INIT_EXPECT = ("init(NULL) 1 1\ninit_extra(NULL) 1 1\ninit nomem 1 1\ninit_extra nomem 1 1\n"
               "init ok 1 1\n")


def init_check(chk):
    flex = chk.flex("san")
    for bk in ("default", "c99"):
        d = chk.scratch.sub("init_" + bk)
        text = INIT_SPEC
        if bk == "c99":
            text = text.replace("reentrant", 'emit="c99" extra-type="int *"').replace("yy_size_t", "size_t")
            text = text.replace("%{\n#include <errno.h>", "%top{\n#include <stddef.h>\nstruct yyguts_t;\n"
                                "void *yyalloc(size_t n, struct yyguts_t *s);\nvoid *yyrealloc(void *p, size_t n, "
                                "struct yyguts_t *s);\nvoid yyfree(void *p, struct yyguts_t *s);\n}\n%{\n#include <errno.h>")
        sp = os.path.join(d, "i.l")
        util.write(sp, text)
        out = os.path.join(d, "i.c")
        cmd, r = runner.flex_generate(flex, sp, out, [], cwd=d)
        chk.count(1)
        chk.nontriv("init:" + bk)
        if r.rc != 0:
            chk.violation("init probe (%s): flex failed: %s" % (bk, r.err[-400:]), {"kind": "init-build"})
            continue
        exe = os.path.join(d, "i.exe")
        c = util.run(["gcc", "-w", "-g", "-fsanitize=address,undefined", "-fno-sanitize-recover=all"] +
                     runner.scov.cflags() + ["-o", exe, out], cwd=d, env=util.clean_env(), timeout=120)
        if c.rc != 0:
            chk.violation("init probe (%s) does not compile: %s" % (bk, c.err.decode("latin1")[-600:]),
                          {"kind": "init-build"})
            continue
        x = util.run([exe], cwd=d, env=util.clean_env(runner.SAN_ENV), timeout=30)
        got = x.out.decode("latin1")
        if x.rc != 0 or got != INIT_EXPECT:
            def save(dst, sp=sp):
                shutil.copy(sp, dst)
            chk.violation("yylex_init/yylex_init_extra error returns (%s back end): got %r (exit %s, %s), "
                          "documented %r" % (bk, got, x.rc, x.err.decode("latin1")[-400:], INIT_EXPECT),
                          {"kind": "init-return", "backend": bk}, save)
        else:
            chk.feat1("init_error_returns_ok")


def run(pid, tier):
    chk = common.Check(pid, tier, level="fault_enumeration")
    chk.rule = RULE
    known.replay_known(chk)
    na, nr = (27, 12) if tier == "quick" else (540, 200)
    ks = []
    for o in util.pmap(alloc_worker, [(chk, i) for i in range(na)]):
        if o.get("skipped"):
            chk.feat1("skipped")
            continue
        chk.count(o["runs"])
        chk.feat(o["feats"])
        ks.append(o["k"])
        for k in range(o["runs"]):
            chk.nontriv("a%d/%d" % (o["i"], k))
        for kind, what, b, ro, ci in o["problems"]:
            def save(d, b=b, ro=ro, ci=ci):
                runner.save_replay(d, b, ci, ro, {"problem": kind})
            chk.violation("%s: %s" % (kind, what), {"kind": kind.split(":")[0]}, save)
    for o in util.pmap(read_worker, [(chk, i) for i in range(nr)]):
        if o.get("skipped"):
            chk.feat1("skipped")
            chk.inconc("read scenario %d: %s" % (o["i"], o["skipped"]))
            continue
        chk.count(o["runs"])
        chk.feat(o["feats"])
        for k in range(o["runs"]):
            chk.nontriv("r%d/%d" % (o["i"], k))
        for kind, what, b, ro, ci in o["problems"]:
            def save(d, b=b, ro=ro, ci=ci):
                runner.save_replay(d, b, ci, ro, {"problem": kind})
            chk.violation("%s: %s" % (kind, what), {"kind": kind.split(":")[0]}, save)
    init_check(chk)
    chk.extra["exhaustive"] = True
    chk.extra["exhaustive_dimension"] = ("every allocation index 1..n of each scenario; every read index "
                                         "of each read scenario (single faults)")
    chk.extra["allocation_requests_per_scenario"] = ks
    chk.sample({"scenarios": na, "allocation_requests": ks[:10]})
    for k in ("fatal_nomem", "eintr_identical", "eio_reported", "path:stdio_fread", "path:stdio_getc",
              "path:read2", "path:c99_fread", "scenario:tables_load", "scenario:tables_load_full", "init_error_returns_ok",
              "scenario:buffers", "scenario:reject", "scenario:start_stack", "scenario:start_stack_deep",
              "stack_regrown_in_undisturbed_run", "fatal_buffer_grow", "scenario:buffer_growth", "scenario:reject_regrow"):
        chk.require(k)
    return chk


def replay(d):
    return lib.replay(d)
