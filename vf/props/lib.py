"""Shared driver of the event-stream checks."""
import os, re
from .. import util, common, gen, pat, stream, model, emit, known


def worker(args):
    chk, i, make_job = args
    rng = chk.rng("case", i)
    job = make_job(chk, rng, i)
    if job is None:
        return i, None, None
    wd = os.path.join(chk.scratch.path, "c%d" % i)
    res = stream.run_case(chk.flex(job.get("flexvariant", "san")), job["case"], job["configs"],
                          job["inputs"], wd, expect_build=job.get("expect_build"),
                          stop_on_first=True, cpu_s=job.get("cpu_s", 20),
                          skip_if=job.get("skip_if"))
    return i, job, res


def sig_of(p, job):
    return {"kind": p["kind"]}


def explore(chk, indices, make_job, sig_fn=None, jobs=None):
    """Run make_job for every index in parallel; aggregate into chk."""
    known.replay_known(chk)
    items = [(chk, i, make_job) for i in indices]
    for i, job, res in util.pmap(worker, items, jobs):
        if job is None:
            continue
        chk.count(res.runs)
        chk.feat(res.features)
        chk.feat1("builds", res.builds)
        chk.feat1("events", res.events)
        chk.feat1("cases")
        for k in job.get("features", []):
            chk.feat1(k)
        for ii in range(res.runs):
            chk.nontriv("%d/%d" % (i, ii))
        for w in res.inconclusive:
            chk.inconc("case %d: %s" % (i, w))
        for p in res.problems:
            sig = (sig_fn or sig_of)(p, job)
            chk.violation("case %d cfg %s: %s: %s" % (i, stream.cfg_tag(p["cfg"]), p["kind"],
                                                     p["what"]), sig, stream.save_problem(p))
        if len(chk.samples) < 4 and res.runs:
            case = job["case"]
            e = emit.Emitter(case, "nr")
            chk.sample({"case": i, "configs": [stream.cfg_tag(c) for c in job["configs"]][:6],
                        "rules": [e.rule_text(r) + "  " + repr(r["act"])[:80]
                                  for r in case["rules"][:5]],
                        "first_input": job["inputs"][0]["sources"][0][:40].hex()
                        if job["inputs"] else "", "runs": res.runs, "events": res.events})
    return chk


def tables_args(tb, bits):
    """flex arguments for table option tb; full tables default to 7 bits."""
    args = [tb] if tb else []
    if ("f" in tb or "F" in tb) and bits != 7:
        args.append("-8")
    return tuple(args)


def replay(d):
    """Re-execute a replay directory against the current tree."""
    import json
    from .. import runner, build
    case = runner.case_from_json(json.load(open(os.path.join(d, "case.json"))))
    info = json.load(open(os.path.join(d, "info.json")))
    cfg = info.get("cfg")
    if not cfg:
        print("replay: no configuration recorded")
        return 2
    cfg["flexargs"] = tuple(cfg.get("flexargs", ()))
    inp = {"sources": case["sources"], "sched": info.get("sched") or [0],
           "bufsize": info.get("bufsize", 0), "flags": info.get("flags", 0)}
    if case.get("cmp_deliv"):
        inp["cmp_deliv"] = True
        inp["flags"] = 1
    flex = build.get_flex(cfg.get("flexvariant", "san"))
    with util.Scratch("replay") as sc:
        res = stream.run_case(flex, case, [cfg], [inp], os.path.join(sc.path, "w"))
        if res.problems:
            for p in res.problems:
                print("REPRODUCED: %s: %s" % (p["kind"], p["what"][:3000]))
            return 1
    print("replay: no problem on the current tree")
    return 0
