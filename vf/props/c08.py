"""C08 -- see DESIGN.md section 4 (C08); job maker in tokens.py."""
from .. import common
from . import lib, tokens


def run(pid, tier):
    chk = common.Check(pid, tier)
    n = 90 if tier == "quick" else 1500
    chk.rule = RULE
    lib.explore(chk, range(n), tokens.c08_job)
    for k, m in REQUIRED.items():
        chk.require(k, m)
    return chk


def replay(d):
    return lib.replay(d)


RULE = ("case = actions calling yyless/yymore/yyunput/yyinput by hash, %array and %pointer, "
        "1-3 sources chained by yywrap, small buffers and 1-byte reads")
REQUIRED = {"yyless": 10, "yymore": 10, "yyunput": 10, "yyinput": 10, "yyinput_eof": 1,
            "array": 1, "pointer": 1}
