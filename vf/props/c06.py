"""C06 -- see DESIGN.md section 4 (C06); job maker in tokens.py."""
from .. import common
from . import lib, tokens


def run(pid, tier):
    chk = common.Check(pid, tier)
    n = 100 if tier == "quick" else 1500
    chk.rule = RULE
    lib.explore(chk, range(n), tokens.c06_job)
    for k, m in REQUIRED.items():
        chk.require(k, m)
    return chk


def replay(d):
    return lib.replay(d)


RULE = ("case = rule set with ^, $, r/s (fixed and variable head/trail), '|' actions, "
        "competing rules, yysetbol; rule sets for which flex warns 'dangerous trailing "
        "context' are skipped as the property says")
REQUIRED = {"trail_fire": 1, "trail:var_head_fixed_trail": 1, "trail:fixed_head_var_trail": 1,
            "trail:var_head_var_trail": 1}
