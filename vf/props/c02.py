"""C02 -- behaviour independent of table representation, API flavour, back end; documented
refusals of unsupported combinations."""
import os
from .. import common, util, gen, pat, scripts, stream, runner, known
from . import lib, tokens

TABLES = ["-C", "-Ce", "-Cm", "-Cem", "-Cf", "-Cfe", "-CF", "-CFe"]
FLAVS = ["nr", "r", "c99", "cxx"]

RULE = ("case = rule set with ^, fixed/variable trailing context, REJECT, yymore, yyless, NUL "
        "and 8-bit patterns; each case is built under 8-12 configurations sampled from tables "
        "{-C,-Ce,-Cm,-Cem,-Cf,-Cfe,-CF,-CFe} x align x {7,8 bit} x {-I,-B} x {%pointer,%array} x "
        "{non-reentrant, reentrant, c99, C++ class} x {options as %option, on the command line}; "
        "every run is co-simulated with the one model stream, so all configurations agree with "
        "each other; part B replays the manual's table of unsupported combinations and expects "
        "a non-zero exit with the documented message (or the documented warning)")


def make_job(chk, rng, i):
    p = gen.default_profile()
    p["nrules"] = (2, 8)
    p["depth"] = 2
    p["trail"] = 20
    p["bol"] = 20
    p["bar"] = 8
    seven = (i % 4 == 3)
    if not seven:
        p["extra_alpha"] = b"\x00\x80\xff" if i % 2 == 0 else b"\x00"
    else:
        p["extra_alpha"] = b"\x00\x7f"
        p["bits"] = 8     # the rule set itself is meaningful for both widths
        p["no_high"] = True
    g, case = tokens.base_case(chk, rng, p)
    if seven:
        # keep explicit high bytes out of the patterns: the same rule set is built with -7
        def high(case):
            return any(pat.uses_high(r["pat"], gen.ctx_of(case)) or
                       (r.get("trail") is not None and pat.uses_high(r["trail"], gen.ctx_of(case)))
                       for r in case["rules"]) or any(pat.uses_high(d, gen.ctx_of(case))
                                                      for _, d in case.get("defs", []))
        for _ in range(8):
            if not high(case):
                break
            g, case = tokens.base_case(chk, rng, p)      # (coverage of -7 must not depend on luck)
        else:
            seven = False
    if i % 8 == 5 and not seven:
        tokens.shared_nul_class(g, case, (i // 8) % 2)
    mode = i % 3
    if mode == 0:
        f = {"ret": 25, "more": 25, "less": 25}
        for r in case["rules"]:
            r["bol"] = False
    elif mode == 1:
        f = {"ret": 25, "reject": 45}
    else:
        f = {"ret": 30, "more": 20}
    scripts.decorate(case, rng, f)
    uses_reject = bool(case["opts"].get("uses_reject"))
    ctx = gen.ctx_of(case)
    inputs = []
    for k in range(8):
        s = g.make_input(case, ctx, maxlen=70)
        if seven:
            s = bytes(c & 0x7F for c in s)
        inputs.append({"sources": [s], "sched": rng.choice([[0], [1], [3, 2]])})
    ncfg = 10
    configs = []
    seen = set()
    tries = 0
    while len(configs) < ncfg and tries < 200:
        tries += 1
        j = len(configs)
        tb = TABLES[(i + j) % len(TABLES)] if tries <= ncfg * 2 else rng.choice(TABLES)
        if rng.chance(25):
            tb += "a"
        fl = FLAVS[(i // 2 + j) % len(FLAVS)] if tries <= ncfg * 2 else rng.choice(FLAVS)
        full = "f" in tb or "F" in tb
        inter = rng.choice([True, False])
        if full:
            inter = False
        bits = 7 if (seven and j % 2 == 0) else 8
        array = rng.chance(40) and fl != "cxx"
        cli = rng.chance(40)
        if fl == "cxx" and "F" in tb:
            continue        # documented refusal, part B
        key = (tb, fl, inter, bits, array, cli)
        if key in seen:
            continue
        seen.add(key)
        args = [tb]
        if bits == 8 and full:
            args.append("-8")
        opts = {"interactive": inter, "array": array, "opts_on_cli": cli, "bits": bits}
        configs.append({"flavour": fl, "flexargs": tuple(args), "opts": opts,
                        "_tb": tb})
    feats = set()
    for c in configs:
        feats.add("tables:" + c["_tb"].rstrip("a"))
        if c["_tb"].endswith("a"):
            feats.add("align")
        feats.add("flavour:" + c["flavour"])
        feats.add("bits:%d" % c["opts"]["bits"])
        feats.add("interactive:%s" % c["opts"]["interactive"])
        feats.add("array:%s" % c["opts"]["array"])
        feats.add("cli:%s" % c["opts"]["opts_on_cli"])

    def expect_build(cfg, built):
        return tokens.std_refusals(cfg["_tb"])(cfg, built)
    return {"case": case, "configs": configs, "inputs": inputs, "skip_if": tokens.dangerous,
            "expect_build": expect_build, "features": sorted(feats)}


def make_big_job(chk, rng, i):
    """A keyword trie with more single-transition states than any of the generator's fixed
    work lists holds (tblcmp.c puts off 500 of them at a time), next to an identifier rule."""
    p = gen.default_profile()
    p["nrules"] = (1, 1)
    g, case = tokens.base_case(chk, rng, p)
    nkw = rng.choice([150, 180, 240])
    kws = set()
    while len(kws) < nkw:
        kws.add(bytes(rng.choice(b"abcdefghijklmnopqrstuvwxyz") for _ in range(rng.rint(6, 8))))
    kws = sorted(kws)
    rng.shuffle(kws)
    case["defs"] = []
    case["rules"] = [{"scs": None, "bol": False, "pat": ("str", k), "trail": None, "act": []} for k in kws]
    case["rules"].append({"scs": None, "bol": False, "pat": ("plus", ("ccl", False, [("r", 97, 122)])),
                          "trail": None, "act": []})
    inputs = []
    for k in range(4):
        words = []
        for w in kws[k::4]:
            words += [w, w[:-1], w + b"x", w[:rng.rint(1, len(w) - 1)] + bytes([rng.choice(b"abcxyz")])]
        inputs.append({"sources": [b" ".join(words) + b"\n"], "sched": [0]})
    configs = []
    for j, tb in enumerate(["-Cem", "-Ce", "-Cm", "-C", "-Cf", "-CFe"]):
        configs.append({"flavour": ["nr", "r", "c99"][(i + j) % 3], "flexargs": (tb,) + (("-8",) if "f" in tb else ()),
                        "opts": {"bits": 8}, "_tb": tb})
    case["budget"] = {"events": 4000}
    return {"case": case, "configs": configs, "inputs": inputs, "features": ["big_trie"]}


def make_wide_job(chk, rng, i):
    """Token classes that each allow a slightly different, wide set of characters: many DFA states
    with large, similar but unequal transition rows.  Without equivalence classes (-C, -Cm) a
    handful of them fills tblcmp.c's queue of prototype rows, so rows are recycled while still
    in use as the best match."""
    p = gen.default_profile()
    p["nrules"] = (1, 1)
    g, case = tokens.base_case(chk, rng, p)
    case["defs"] = []
    pools = [[("r", 97, 122)], [("r", 65, 90)], [("r", 48, 57)], [("r", 97, 102), ("r", 65, 70)]]
    singles = b"_.:-+~"

    def wide():
        items = []
        for pool in rng.sample(pools, rng.rint(2, 3)):
            items += pool
        for c in rng.sample(list(singles), rng.rint(0, 2)):
            items.append(("c", c))
        return ("ccl", False, items)
    rules = []
    sigils = rng.sample(list(b"@/?\\<#$%&!"), rng.rint(5, 9))

    def members(node):
        out = set()
        for it in node[2]:
            out |= set(range(it[1], it[2] + 1)) if it[0] == "r" else {it[1]}
        return out

    def subset(node, drop):
        m = sorted(members(node))
        keep = [c for c in m if not (c in drop)]
        return ("ccl", False, [("c", c) for c in keep]) if keep else node
    for sg in sigils:
        # nested classes (first < last < middle), as in host names, paths, identifiers: the states
        # of one rule then have rows that agree on most characters and differ on some
        mid = wide()
        mm = sorted(members(mid))
        d1 = set(rng.sample(mm, max(1, len(mm) // rng.choice([3, 4, 6]))))
        last = subset(mid, d1)
        d2 = d1 | set(rng.sample(mm, max(1, len(mm) // rng.choice([3, 5]))))
        first = subset(mid, d2)
        shape = rng.below(4)
        if shape == 0:
            parts = [("chr", sg), first, ("star", mid), last]
        elif shape == 1:
            parts = [("chr", sg), ("plus", mid), ("plus", last)]
        elif shape == 2:
            parts = [("chr", sg), ("plus", first), ("star", last), ("star", mid), first]
        else:
            parts = [("chr", sg), first, ("star", mid), ("chr", rng.choice(b">;")) ]
        rules.append({"scs": None, "bol": False, "pat": ("cat", parts), "trail": None, "act": []})
    rules.append({"scs": None, "bol": False, "pat": ("plus", ("ccl", False, [("r", 97, 122), ("r", 65, 90)])),
                  "trail": None, "act": []})
    rules.append({"scs": None, "bol": False, "pat": ("plus", ("ccl", False, [("r", 48, 57)])),
                  "trail": None, "act": []})
    case["rules"] = rules
    ctx = gen.ctx_of(case)
    inputs = []
    for k in range(5):
        toks = []
        for _ in range(30):
            sg = bytes([rng.choice(sigils)]) if rng.chance(80) else b""
            body = bytes(rng.choice(b"abcxyzABCXYZ0189_.:-+~fF") for _ in range(rng.rint(1, 7)))
            toks.append(sg + body)
        inputs.append({"sources": [b" ".join(toks) + b"\n" + g.make_input(case, ctx, maxlen=60)], "sched": [0]})
    configs = []
    for j, tb in enumerate(["-Cm", "-C", "-Ca", "-Cma", "-Cem", "-Cf"]):
        configs.append({"flavour": ["nr", "r", "c99"][(i + j) % 3], "flexargs": (tb,) + (("-8",) if "f" in tb else ()),
                        "opts": {"bits": 8}, "_tb": tb})
    case["budget"] = {"events": 4000}
    return {"case": case, "configs": configs, "inputs": inputs, "features": ["wide_similar_rows"]}


# --------------------------------------------------------------------------- part B
BASE = "%%option noyywrap\n%s\n%%%%\n%s\n%%%%\nint main(void) { return 0; }\n"
RULES_PLAIN = "ab   { return 1; }\n.|\\n { return 2; }"
RULES_REJECT = "ab   { REJECT; }\na    { return 1; }\n.|\\n { return 2; }"
RULES_VARTRAIL = "a+/b+c   { return 1; }\n.|\\n { return 2; }"

REFUSALS = [
    # (name, options text, rules, flex args, expected: ("error", substring) | ("warn", substring))
    ("full+meta-ecs", "", RULES_PLAIN, ["-Cfm"], ("error", "don't make sense together")),
    ("fast+meta-ecs", "", RULES_PLAIN, ["-CFm"], ("error", "don't make sense together")),
    ("full+interactive", "", RULES_PLAIN, ["-Cf", "-I"], ("error", "-I are incompatible")),
    ("fast+interactive(%option)", "%option interactive", RULES_PLAIN, ["-CF"],
     ("error", "-I are incompatible")),
    ("full+lex-compat", "", RULES_PLAIN, ["-Cf", "-l"], ("error", "-l option")),
    ("fast+lex-compat", "", RULES_PLAIN, ["-CF", "-l"], ("error", "-l option")),
    ("full+fast", "", RULES_PLAIN, ["-Cf", "-CF"], ("error", "mutually exclusive")),
    ("c+++lex-compat", "", RULES_PLAIN, ["-+", "-l"], ("error", "-+ with -l")),
    ("c+++fast", "", RULES_PLAIN, ["-+", "-CF"], ("error", "-+ with -CF")),
    ("c+++reentrant", "", RULES_PLAIN, ["-+", "--reentrant"], ("error", "mutually exclusive")),
    ("c+++reentrant(%option)", "%option c++ reentrant", RULES_PLAIN, [],
     ("error", "mutually exclusive")),
    ("c+++bison-bridge", "", RULES_PLAIN, ["-+", "--bison-bridge"],
     ("error", "bison bridge not supported")),
    ("reject+full", "", RULES_REJECT, ["-Cf"], ("error", "REJECT cannot be used with -f or -F")),
    ("reject+fast", "", RULES_REJECT, ["-CF"], ("error", "REJECT cannot be used with -f or -F")),
    ("vartrail+full", "", RULES_VARTRAIL, ["-Cf"],
     ("error", "variable trailing context rules cannot be used with -f or -F")),
    ("vartrail+fast", "", RULES_VARTRAIL, ["-CF"],
     ("error", "variable trailing context rules cannot be used with -f or -F")),
    ("array+c++", "%array", RULES_PLAIN, ["-+"], ("warn", "%array incompatible with -+")),
    ("8bit-pattern+7bit", "", "\\xe9   { return 1; }", ["-7"], ("error", "requires -8 flag")),
    ("8bit-pattern+full-default-7bit", "", "\\xe9   { return 1; }", ["-Cf"],
     ("error", "requires -8 flag")),
]


def refusal_checks(chk):
    flex = chk.flex("san")
    for name, opts, rules, args, (kind, sub) in REFUSALS:
        d = os.path.join(chk.scratch.path, "ref_" + "".join(c if c.isalnum() else "_" for c in name))
        os.makedirs(d, exist_ok=True)
        spec = os.path.join(d, "r.l")
        util.write(spec, BASE % (opts, rules))
        cxx = "-+" in args or "c++" in opts
        out = os.path.join(d, "r.cc" if cxx else "r.c")
        cmd, r = runner.flex_generate(flex, spec, out, args, cwd=d)
        err = r.err.decode("latin1")
        chk.count(1)
        chk.nontriv("refusal:" + name)
        chk.feat1("refusal_rows")
        bad = None
        if "AddressSanitizer" in err or "runtime error" in err or r.rc in (98, 99) or \
           (r.rc is not None and r.rc < 0):
            bad = "flex crashed: rc=%s %s" % (r.rc, err[-800:])
        elif kind == "error":
            if r.rc == 0:
                bad = "unsupported combination accepted silently (exit 0, stderr %r)" % err[-300:]
            elif sub not in err:
                bad = "refused without the documented message %r: %r" % (sub, err[-300:])
            elif os.path.exists(out) and os.path.getsize(out) > 0:
                bad = "refused, but a scanner file was left behind"
            else:
                chk.feat1("refusal_ok")
        else:
            if r.rc != 0:
                bad = "documented override-with-warning combination was refused: %r" % err[-300:]
            elif sub not in err:
                bad = "no warning %r: %r" % (sub, err[-300:])
            else:
                # overridden: the result must compile
                c = util.run(["g++" if cxx else "gcc", "-w", "-I", flex.include, "-c", out, "-o",
                              out + ".o"], cwd=d, env=util.clean_env(), timeout=120)
                if c.rc != 0:
                    bad = "overridden combination does not compile: %s" % c.err.decode("latin1")[-500:]
                else:
                    chk.feat1("override_ok")
        if bad:
            def save(dst, spec=spec, cmd=cmd, err=err):
                import shutil
                shutil.copy(spec, dst)
                util.jdump({"cmd": cmd, "stderr": err[-3000:], "row": name},
                           os.path.join(dst, "info.json"))
            chk.violation("refusal row %s (%s): %s" % (name, " ".join(args), bad),
                          {"kind": "refusal", "row": name}, save)


def run(pid, tier):
    chk = common.Check(pid, tier)
    chk.rule = RULE
    n = 16 if tier == "quick" else 200
    lib.explore(chk, range(n), make_job)
    lib.explore(chk, range(1000, 1000 + (2 if tier == "quick" else 12)), make_big_job)
    lib.explore(chk, range(2000, 2000 + (4 if tier == "quick" else 40)), make_wide_job)
    refusal_checks(chk)
    for t in TABLES:
        chk.require("tables:" + t)
    for fl in FLAVS:
        chk.require("flavour:" + fl)
    for k in ("align", "bits:7", "bits:8", "interactive:True", "interactive:False", "array:True",
              "array:False", "cli:True", "cli:False", "reject", "yymore", "trail_fire", "big_trie",
              "wide_similar_rows"):
        chk.require(k)
    chk.require("refusal_ok", 15)
    chk.require("override_ok", 1)
    return chk


def replay(d):
    return lib.replay(d)
