"""C10 -- see DESIGN.md section 4 (C10); job maker in tokens.py."""
from .. import common
from . import lib, tokens


def run(pid, tier):
    chk = common.Check(pid, tier)
    n = QUICK if tier == "quick" else THOROUGH
    chk.rule = RULE
    lib.explore(chk, range(n), tokens.c10_job)
    for k, m in REQUIRED.items():
        chk.require(k, m)
    return chk


def replay(d):
    return lib.replay(d)


QUICK, THOROUGH = 90, 1500
RULE = ("case = rule set with 1-4 start conditions, <<EOF>> rules (none / unqualified / per "
        "condition), 1-5 sources (some empty, some ending inside a token) chained by yywrap, "
        "EOF actions that terminate, return or restart, driver that points yyin at a new "
        "source or calls yyrestart after termination; sources that report end of input once "
        "(at a random place, often inside a token) and then go on, with yywrap returning 0 and "
        "yyin unchanged; programs that start on a string buffer and go on with files through yywrap")
REQUIRED = {"eof": 50, "eof_rule": 5, "wrap_next": 10, "wrap_next_empty": 1, "newin": 1,
            "restart": 1, "eof_empty_source": 1, "include_mode": 1, "wrap_pop": 3,
            "soft_end_of_input": 3, "wrap_soft": 10, "string_then_files": 3,
            "string_then_files:scan_buffer": 2, "string_then_files:scan_bytes": 2}
