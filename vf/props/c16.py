"""C16 -- flex itself: robust on arbitrary input files, honest exit status, diagnostics."""
import os, re, glob, shutil
from .. import common, util, gen, pat, emit, runner, known
from . import tokens

RULE = ("(1) mutation fuzzing: corpus = the 84 tracked .l/.lex/.rules files of the repository + "
        "generated specifications, mutated with flex-aware tokens, truncation, duplication and "
        "splicing, run through an ASan+UBSan flex with random option sets; (2) directed limit "
        "inputs (rule count, name/line lengths, nesting depth, repeat counts, huge blocks); "
        "(3) write-fault enumeration on every output file (scanner, header, tables, backup): "
        "/dev/full, missing directory, ENOSPC injected by strace on the k-th write to that "
        "file.  Oracle at the process boundary: no signal, no sanitizer report, bounded "
        "progress; exit 0 => every requested output exists and is complete; exit != 0 => a "
        "diagnostic on stderr, syntax problems as file:line messages")

TOKENS = [b"%%", b"%{", b"%}", b"%option ", b"<", b">", b"<<EOF>>", b"{", b"}", b"[", b"]", b"[^",
          b"[:alpha:]", b"[:^digit:]", b"(?i:", b"(?x:", b"(?s-i:", b")", b"(", b"|", b"/", b"$",
          b"^", b"*", b"+", b"?", b"{2,3}", b"{0}", b"{5,2}", b"{-}", b"{+}", b"\"", b"\\", b"\\x",
          b"\\0", b"\\777", b"\n", b"\t", b" ", b"%x S\n", b"%s T\n", b"%top{\n", b"%array\n",
          b"%pointer\n", b"yymore()", b"REJECT", b"yyreject()", b"yyless(1)", b"[[", b"]]", b"m4_dnl",
          b"M4_YY_NOOP", b"/*", b"*/", b"'", b"<*>", b"<S>{\n", b"}\n", b"{NAME}", b"NAME  [a-z]+\n",
          b"\x00", b"\xff", b"\r\n", b"yyterminate()", b"ECHO;", b"|\n", b"%option yylmax=1\n",
          b"%option prefix=\"zz\"\n", b"%option emit=\"c99\"\n", b"%option header-file=\"h.h\"\n",
          b"#line 5 \"x\"\n", b"%option extra-type=\"struct x *\"\n", b"9999999999", b"-", b","]

OPTSETS = [[], ["-Cf"], ["-CF"], ["-Ce"], ["-Cm"], ["-Cem"], ["-Ca"], ["-C"], ["-7"], ["-8"], ["-i"],
           ["-I"], ["-B"], ["-l"], ["-X"], ["-s"], ["-d"], ["-p", "-p"], ["-v"], ["-L"], ["-+"],
           ["--reentrant"], ["--bison-bridge"], ["--bison-locations"], ["--yylineno"], ["--stack"],
           ["--array"], ["--emit=c99"], ["--emit=nr"], ["--emit=r"], ["-P", "zz"], ["--yyclass=Foo"],
           ["-w"], ["--noline"], ["--main"], ["--nodefault"], ["--read"], ["-f"], ["-F"], ["-b"],
           ["-T"], ["-T", "-v"], ["--emit=go"], ["-n"], ["--posix"], ["--lex-compat"], ["--nounistd"],
           ["--never-interactive"], ["--always-interactive"], ["--stdinit"], ["--yymore"], ["--reject"],
           ["--extra-type=struct foo *"], ["--yylmax=100", "--array"], ["--bufsize=64"],
           ["--yydecl=int scan(void)"], ["--yyterminate=return -1"], ["--noyyalloc"], ["--noyyread"],
           ["--tables-verify"], ["--debug", "--perf-report", "--verbose"]]

PATH_RE = re.compile(r"^(.+?):(\d+): ")


def corpus_files():
    out = []
    for pat_ in ("examples/*/*.l", "examples/*/*.lex", "examples/*.l", "src/scan.l", "tests/*.l",
                 "tests/*.rules"):
        out += glob.glob(os.path.join(util.REPO, pat_))
    import subprocess
    try:
        tracked = set(subprocess.run(["git", "-C", util.REPO, "ls-files"], capture_output=True,
                                     text=True, timeout=30).stdout.split())
        t = [p for p in out if os.path.relpath(p, util.REPO) in tracked]
        if len(t) >= 20:
            out = t
    except Exception:
        pass
    return sorted(set(out))


def mutate(rng, data, corpus):
    b = bytearray(data)
    for _ in range(rng.rint(1, 6)):
        t = rng.below(9)
        if not b:
            b = bytearray(rng.choice(TOKENS))
        pos = rng.below(len(b) + 1)
        if t == 0:
            b[pos:pos] = rng.choice(TOKENS)
        elif t == 1 and b:
            i = rng.below(len(b))
            b[i] = rng.below(256)
        elif t == 2 and b:
            i = rng.below(len(b))
            j = min(len(b), i + rng.rint(1, 40))
            del b[i:j]
        elif t == 3 and b:
            i = rng.below(len(b))
            j = min(len(b), i + rng.rint(1, 60))
            b[pos:pos] = b[i:j] * rng.rint(1, 3)
        elif t == 4:
            other = rng.choice(corpus)
            i = rng.below(len(other) + 1)
            b[pos:] = other[i:]
        elif t == 5:
            del b[pos:]
        elif t == 6 and b:
            # swap two lines
            lines = bytes(b).split(b"\n")
            if len(lines) > 2:
                i, j = rng.below(len(lines)), rng.below(len(lines))
                lines[i], lines[j] = lines[j], lines[i]
                b = bytearray(b"\n".join(lines))
        elif t == 7:
            b[pos:pos] = rng.choice(TOKENS) * rng.rint(2, 50)
        else:
            b[pos:pos] = bytes(rng.below(256) for _ in range(rng.rint(1, 8)))
    return bytes(b)


def judge(res, outs, specname):
    """Classify one flex run.  Returns (kind, detail) or None when everything is fine."""
    err = res.err.decode("latin1")
    if res.timed_out or res.rc in (-24, 152):
        # wall-clock watchdog or our own RLIMIT_CPU (SIGXCPU): a progress question, not a crash
        return ("hang", "no result within the progress bound")
    if res.rc is not None and res.rc < 0:
        return ("signal", "flex died of signal %d; stderr: %s" % (-res.rc, err[-600:]))
    if "AddressSanitizer" in err or "runtime error:" in err or res.rc in (98, 99):
        return ("sanitizer", err[-3000:])
    if res.rc == 0:
        for kind, p in outs:
            if not os.path.exists(p):
                return ("missing-output", "exit 0 but %s %s was not written" % (kind, p))
            if os.path.getsize(p) == 0:
                return ("empty-output", "exit 0 but %s %s is empty" % (kind, p))
        return None
    if res.rc > 128:
        return ("signal", "exit status %d (child killed by signal %d); stderr: %s" % (
            res.rc, res.rc - 128, err[-600:]))
    if not err.strip():
        return ("silent-failure", "exit status %d with empty stderr" % res.rc)
    return None


def progress_probe(cmd, cwd, env, seconds=24):
    """Run cmd for a while and say what it is doing: 'blocked' (hardly any CPU time),
    'growing' (CPU-bound, resident memory rising), or 'spinning' (CPU-bound, memory flat)."""
    import subprocess, time, signal
    p = subprocess.Popen(cmd, cwd=cwd, env=env, stdout=subprocess.DEVNULL, stderr=subprocess.DEVNULL,
                         start_new_session=True)
    rss, cpu, counters = [], [], []

    def flex_counters():
        # flex's own progress counters (states of the automata built so far), read with gdb
        try:
            r = subprocess.run(["gdb", "-p", str(p.pid), "-batch", "-ex", "p lastdfa", "-ex", "p lastnfa",
                                "-ex", "p num_rules"], capture_output=True, text=True, timeout=20)
            v = tuple(int(x) for x in re.findall(r"^\$\d+ = (-?\d+)", r.stdout, re.M))
            return v if len(v) == 3 else None
        except (OSError, subprocess.SubprocessError, ValueError):
            return None
    try:
        for n_ in range(seconds // 2):
            time.sleep(2)
            if p.poll() is not None:
                return "finished"
            if n_ in (1, seconds // 2 - 1):
                c_ = flex_counters()
                if c_ is not None:
                    counters.append(c_)
            try:
                st = open("/proc/%d/stat" % p.pid).read().rsplit(")", 1)[1].split()
                cpu.append(int(st[11]) + int(st[12]))           # utime + stime (clock ticks)
                for line in open("/proc/%d/status" % p.pid):
                    if line.startswith("VmRSS:"):
                        rss.append(int(line.split()[1]))
            except (OSError, IndexError, ValueError):
                break
    finally:
        try:
            os.killpg(p.pid, signal.SIGKILL)
        except OSError:
            pass
        p.wait()
    if len(cpu) < 4:
        return "finished"
    if cpu[-1] - cpu[0] < 100 * (len(cpu) - 1):        # under half of the wall time on the CPU
        return "blocked: no CPU time used while waiting"
    if len(counters) == 2 and counters[1] != counters[0] and all(b >= a for a, b in zip(*counters)):
        return "growing"        # more automaton states than 20 seconds earlier
    if rss and rss[-1] > rss[len(rss) // 2] * 1.01 and rss[-1] > rss[0] * 1.02:
        return "growing"
    return "spinning: CPU-bound with constant memory"


def fuzz_worker(args):
    chk, i, corpus, nper = args
    rng = chk.rng("fuzz", i)
    flex = chk.flex("san")
    d = os.path.join(chk.scratch.path, "f%d" % i)
    os.makedirs(d, exist_ok=True)
    out = {"runs": 0, "problems": [], "feats": {}, "inconc": []}

    def feat(k):
        out["feats"][k] = out["feats"].get(k, 0) + 1
    for n in range(nper):
        base = rng.choice(corpus)
        data = base if rng.chance(10) else mutate(rng, base, corpus)
        spec = os.path.join(d, "in%d.l" % n)
        util.write(spec, data)
        opts = list(rng.choice(OPTSETS))
        if rng.chance(30):
            opts += rng.choice(OPTSETS)
        outs = [("scanner", os.path.join(d, "out%d.c" % n))]
        if rng.chance(15):
            h = os.path.join(d, "h%d.h" % n)
            opts.append("--header-file=" + h)
            outs.append(("header", h))
        if rng.chance(10):
            t = os.path.join(d, "t%d.tbl" % n)
            opts.append("--tables-file=" + t)
            outs.append(("tables", t))
        cmd = [flex.bin] + opts + ["-o", outs[0][1], spec]
        env = flex.env(tmpdir=d)
        res = util.run(cmd, cwd=d, env=env, timeout=60, cpu_s=40)
        out["runs"] += 1
        # options inside the (mutated) input may redirect outputs: only judge existence when
        # the text has no outfile/header/tables option of its own
        own = b"outfile" in data or b"header" in data or b"tables-file" in data or b"%option stdout" in data \
            or b"stdout" in data
        v = judge(res, [] if own else outs, spec)
        err = res.err.decode("latin1")
        if res.rc == 0:
            feat("accepted")
        else:
            feat("rejected")
            if "m4:" in err and "ERROR" in err:
                # a diagnostic and a non-zero status, so not a C16 verdict; whether *valid*
                # user text can upset m4 is C20's question
                feat("rejected_by_m4_stage")
            for m in ("unrecognized rule", "bad character", "undefined definition", "unrecognized %option",
                      "missing quote", "bad iteration values", "unbalanced parenthesis",
                      "EOF encountered inside", "bad <start condition>", "negative range",
                      "trailing context used twice", "incomplete name definition",
                      "undeclared start condition", "Input line too long", "premature EOF",
                      "bad character class", "iteration value must be positive",
                      "start condition .* declared twice", "fatal parse error",
                      "scanner requires -8 flag", "multiple <<EOF>> rules"):
                if re.search(m, err):
                    feat("msg:" + m)
        if v and v[0] == "hang":
            if len(data) <= 4096:
                res2 = util.run(cmd, cwd=d, env=env, timeout=120, cpu_s=90)
                if res2.timed_out or res2.rc in (152, 137, -24, -9):
                    v = ("hang", "input of %d bytes: no result within 90 CPU-seconds (twice)" % len(data))
                    # known finding K05: with -Ca the NFA size limit is 2*10^9 states, so nested
                    # repeats are expanded (quadratically slowly) instead of being refused
                    aligned = any(o in ("-Ca", "--align") or (o.startswith("-C") and "a" in o) for o in opts) \
                        or b"align" in data
                    if aligned and len(re.findall(rb"\{\d+,?\d*\}", data)) >= 8:
                        v = ("hang-align-repeat", v[1])
                    else:
                        # Is it stuck, or still building an automaton whose size is exponential
                        # in the pattern (no limit on DFA states is documented, and a time bound
                        # is no part of the property)?  Watch the process for a while.
                        state = progress_probe(cmd, d, env)
                        if state == "growing":
                            out["inconc"].append("input of %d bytes: after 90 CPU-seconds flex is still "
                                                 "computing and its memory still grows (automaton "
                                                 "construction): not judged" % len(data))
                            v = None
                        else:
                            v = ("hang", v[1] + "; " + state)
                else:
                    v = judge(res2, [] if own else outs, spec)
                    out["inconc"].append("slow input (%d bytes) finished on the second, longer run" % len(data))
            else:
                out["inconc"].append("large input (%d bytes) exceeded the progress bound" % len(data))
                v = None
        if v:
            out["problems"].append((v[0], v[1], spec, cmd, err))
        else:
            for _, p in outs:
                try:
                    os.unlink(p)
                except OSError:
                    pass
            os.unlink(spec)
    return out


# ------------------------------------------------------------------------- limits
def limit_specs():
    L = []
    L.append(("rules_8300", "%%\n" + "".join("k%05dz ;\n" % i for i in range(8300)) + "%%\n", []))
    L.append(("name_2047", "N" + "a" * 2046 + " [a-z]\n%%\n{N" + "a" * 2046 + "} ;\n%%\n", []))
    L.append(("name_2048", "N" + "a" * 2047 + " [a-z]\n%%\nx ;\n%%\n", []))
    L.append(("name_5000", "N" + "a" * 4999 + " [a-z]\n%%\nx ;\n%%\n", []))
    L.append(("def_5000", "N " + "a" * 5000 + "\n%%\n{N} ;\n%%\n", []))
    L.append(("sc_name_3000", "%x S" + "b" * 3000 + "\n%%\n<S" + "b" * 3000 + ">x ;\n%%\n", []))
    L.append(("option_string_5000", "%option prefix=\"" + "p" * 5000 + "\"\n%%\nx ;\n%%\n", []))
    L.append(("pattern_line_5000", "%%\n" + "a" * 5000 + " ;\n%%\n", []))
    L.append(("ccl_5000", "%%\n[" + "ab" * 2500 + "] ;\n%%\n", []))
    L.append(("quoted_5000", "%%\n\"" + "q" * 5000 + "\" ;\n%%\n", []))
    L.append(("parens_10000", "%%\n" + "(" * 10000 + "a" + ")" * 10000 + " ;\n%%\n", []))
    L.append(("parens_unbalanced_10000", "%%\n" + "(" * 10000 + "a ;\n%%\n", []))
    L.append(("scopes_3000", "%x S\n%%\n" + "<S>{\n" * 3000 + "a ;\n" + "}\n" * 3000 + "%%\n", []))
    L.append(("repeat_huge", "%%\na{9999999999} ;\n%%\n", []))
    L.append(("repeat_4000", "%%\n[ab]{4000} ;\n%%\n", []))
    L.append(("repeat_nested", "%%\n((a{60}){60}){40} ;\n%%\n", []))
    L.append(("top_1MB", "%top{\n" + "/* x */\n" * 130000 + "}\n%%\nx ;\n%%\n", []))
    L.append(("action_1MB", "%%\nx {\n" + "/* y */\n" * 130000 + "}\n%%\n", []))
    L.append(("many_scs_3000", "".join("%%x C%d\n" % i for i in range(3000)) + "%%\n<C7>x ;\n%%\n", []))
    L.append(("many_defs_5000", "".join("D%d a%d\n" % (i, i) for i in range(5000)) + "%%\n{D77} ;\n%%\n", []))
    L.append(("nfa_blowup", "%%\n" + "(a|b)*a" + "(a|b)" * 14 + " ;\n%%\n", []))
    # single very long tokens in every place user code is copied from
    L.append(("action_string_300k", "%%\nx { const char *s = \"" + "s" * 300000 + "\"; (void) s; }\n%%\n", []))
    L.append(("action_word_20k", "%%\nx { int " + "v" * 20000 + " = 0; }\n%%\n", []))
    L.append(("action_oneline_100k", "%%\nx return 1" + " + 1" * 25000 + ";\n%%\n", []))
    L.append(("codeblock_line_100k", "%{\n/* " + "c" * 100000 + " */\n%}\n%%\nx ;\n%%\n", []))
    L.append(("indented_line_100k", " /* " + "i" * 100000 + " */\n%%\nx ;\n%%\n", []))
    L.append(("top_line_100k", "%top{\n/* " + "t" * 100000 + " */\n}\n%%\nx ;\n%%\n", []))
    L.append(("sect3_line_300k", "%%\nx ;\n%%\n/* " + "z" * 300000 + " */\n", []))
    L.append(("action_comment_100k", "%%\nx { /* " + "k" * 100000 + " */ }\n%%\n", []))
    L.append(("parens_20000", "%%\n" + "(" * 20000 + "a" + ")" * 20000 + " ;\nb ;\n%%\n", []))
    L.append(("alt_chain_20000", "%%\n" + "|".join(["a"] * 20000) + " ;\n%%\n", []))
    L.append(("cat_groups_12000", "%%\n" + "(a)" * 12000 + " ;\n%%\n", []))
    # rule counts around the internal limit: an accepted specification must give a scanner
    # that works (its last rule, a variable-trailing-context rule, must still fire)
    for nr in (8185, 8190, 8193, 8198):
        body = "".join("%c ;\n" % "abcdefgh"[k % 8] for k in range(nr - 2))
        L.append(("rules_1char_%d" % nr, "%option noyywrap\n%%\n" + body +
                  "zz+/y+x { puts(\"LAST\"); return 1; }\n%%\nint main(void) { yylex(); return 0; }\n",
                  ["-w"], ("run", b"zzyyx", "LAST\n")))
    L.append(("unterminated_percent_action", "%option noyywrap\n%%\na\t%{\n\tputs(\"A\");\n", []))
    L.append(("unterminated_percent_block", "%option noyywrap\n%%\na ;\n%{\n/* never closed */\nb ;\n", []))
    L.append(("unterminated_brace_action", "%option noyywrap\n%%\na\t{ puts(\"A\");\nb ;\n", []))
    L.append(("unterminated_comment_sect2", "%option noyywrap\n%%\na ;\n    /* never closed\nb ;\n", []))
    L.append(("unterminated_codeblock_sect1", "%{\nint x;\n%%\na ;\n", []))
    L.append(("unterminated_top", "%top{\nint x;\n%%\na ;\n", []))
    # names declared twice: refused with a file:line message, or accepted with a working scanner
    main = "%%\nint main(void) { yylex(); return 0; }\n"
    L.append(("sc_twice_x", "%option noyywrap\n%x A\n%x A\n%%\n<A>a ;\nb ;\n" + main, [], ("run", b"b", "")))
    L.append(("sc_twice_same_line", "%option noyywrap\n%s A B A\n%%\n<A>a ;\n<B>b ;\nc ;\n" + main, [],
              ("run", b"c", "")))
    L.append(("sc_twice_mixed", "%option noyywrap\n%s A\n%x B\n%x A\n%%\n<A>a ;\n<B><<EOF>> return 0;\nc ;\n" + main,
              [], ("run", b"c", "")))
    L.append(("sc_twice_initial", "%option noyywrap\n%s INITIAL\n%%\na ;\n" + main, [], ("run", b"a", "")))
    L.append(("def_twice", "%option noyywrap\nD [0-9]\nD [a-f]\n%%\n{D} ;\n" + main, [], ("run", b"1", "")))
    L.append(("empty", "", []))
    L.append(("only_marker", "%%", []))
    L.append(("nul_bytes", "%%\n\x00\x00 ;\n%%\n", []))
    L.append(("cr_lines", "%option noyywrap\r\n%%\r\na ;\r\n%%\r\n", []))
    L.append(("yylmax_0", "%option yylmax=0\n%array\n%%\na ;\n%%\n", []))
    L.append(("bufsize_huge", "%option bufsize=99999999999\n%%\na ;\n%%\n", []))
    # completeness oracle: the last line of the user-code section must reach the output
    out = []
    for item in L:
        name, text, opts = item[:3]
        if text.endswith("%%\n") or name == "sect3_line_300k":
            text += SENTINEL + "\n"
        out.append((name, text, opts) + tuple(item[3:]))
    return out


SENTINEL = "int vf_end_of_specification_sentinel;"


def limits(chk):
    flex = chk.flex("san")
    d = chk.scratch.sub("limits")
    items = limit_specs()

    def one(item):
        name, text, opts = item[:3]
        spec = os.path.join(d, name + ".l")
        util.write(spec, text.encode("latin1"))
        out = os.path.join(d, name + ".c")
        cmd = [flex.bin] + opts + ["-o", out, spec]
        res = util.run(cmd, cwd=d, env=flex.env(tmpdir=d), timeout=200, cpu_s=150)
        func = None
        if len(item) > 3 and res.rc == 0 and os.path.exists(out):
            # the accepted specification must yield a working scanner
            exe = os.path.join(d, name + ".exe")
            c = util.run(["gcc", "-w", "-O0", "-o", exe, out], cwd=d, env=util.clean_env(), timeout=300)
            if c.rc != 0:
                func = "scanner does not compile: %s" % c.err.decode("latin1")[-300:]
            else:
                x = util.run([exe], cwd=d, env=util.clean_env(), stdin=item[3][1], timeout=30)
                if x.rc != 0 or x.out.decode("latin1") != item[3][2]:
                    func = "scanner exit %s, output %r, expected %r" % (x.rc, x.out[:80], item[3][2])
                else:
                    func = "ok"
        return name, spec, cmd, res, out, func
    for name, spec, cmd, res, out, func in util.pmap(one, items):
        chk.count(1)
        chk.nontriv("limit:" + name)
        err = res.err.decode("latin1")
        v = judge(res, [("scanner", out)], spec)
        if v and v[0] == "hang":
            chk.inconc("limit input %s exceeded 150 CPU-seconds" % name)
            continue
        chk.feat1("limit_inputs")
        if name.startswith("unterminated_") and res.rc == 0 and not v:
            v = ("accepted-unterminated", "flex exit 0 for a specification that ends inside %s" %
                 name[len("unterminated_"):].replace("_", " "))
        if func == "ok":
            chk.feat1("limit_accepted_scanner_works")
        elif func is not None:
            v = v or ("accepted-broken", "flex exit 0, but the %s" % func)
        if res.rc != 0:
            chk.feat1("limit_rejected")
            first = err.strip().splitlines()[0] if err.strip() else ""
            chk.extra.setdefault("limit_messages", {})[name] = first[:160]
            if not (PATH_RE.match(first) or first.startswith(os.path.basename(flex.bin) + ":") or
                    first.startswith(flex.bin + ":")):
                v = v or ("diagnostic-form", "diagnostic is neither 'file:line: ...' nor "
                          "'flex: ...': %r" % first[:200])
        else:
            chk.feat1("limit_accepted")
            chk.extra.setdefault("limit_messages", {})[name] = "(accepted)"
            if not v and SENTINEL in open(spec, encoding="latin1").read():
                try:
                    gen_txt = open(out, encoding="latin1").read()
                except OSError:
                    gen_txt = ""
                if SENTINEL not in gen_txt:
                    v = ("incomplete-output", "exit 0 but the scanner lacks the last line of the "
                         "specification's user code; stderr: %s" % err[-300:])
                else:
                    chk.feat1("limit_output_complete")
        if v:
            def save(dst, spec=spec, cmd=cmd, err=err):
                if os.path.getsize(spec) < 200000:
                    shutil.copy(spec, dst)
                util.jdump({"cmd": cmd, "stderr": err[-3000:]}, os.path.join(dst, "info.json"))
            chk.violation("limit input %s: %s: %s" % (name, v[0], v[1]),
                          {"kind": v[0], "input": name}, save)


# ------------------------------------------------------------------------- write faults
SPEC_OK = ("%option noyywrap\n%%\nab+  { return 1; }\n[0-9]+/x  { return 2; }\n.|\\n ;\n%%\n"
           "int main(void) { return yylex(); }\n")


def write_faults(chk, tier):
    flex = chk.flex("plain")        # ptrace and ASan do not mix; the plain build is traced
    d = chk.scratch.sub("wf")
    spec = os.path.join(d, "w.l")
    util.write(spec, SPEC_OK)
    kinds = {
        "scanner": lambda p: ["-o", p],
        "header": lambda p: ["--header-file=" + p, "-o", os.path.join(d, "ok_h.c")],
        "tables": lambda p: ["--tables-file=" + p, "-o", os.path.join(d, "ok_t.c")],
        "backup": lambda p: ["--backup-file=" + p, "-o", os.path.join(d, "ok_b.c")],
    }
    jobs = []
    for kind, mk in kinds.items():
        jobs.append((kind, "devfull", "/dev/full", mk("/dev/full"), None))
        jobs.append((kind, "missingdir", os.path.join(d, "nodir", "x.out"),
                     mk(os.path.join(d, "nodir", "x.out")), None))
        jobs.append((kind, "isdir", d, mk(d), None))
        nk = 3 if tier == "quick" else 40
        for k in range(1, nk + 1):
            p = os.path.join(d, "%s_k%d.out" % (kind, k))
            jobs.append((kind, "enospc@%d" % k, p, mk(p), k))
    # stdout target
    jobs.append(("stdout", "devfull", "/dev/full", ["-t"], None))
    # a file size limit: the process that writes the file is killed by SIGXFSZ instead of
    # getting an error; sizes just below the complete file, so that only the last write fails
    ref = os.path.join(d, "ref_size.c")
    rr = util.run([flex.bin, "-o", ref, spec], cwd=d, env=flex.env(tmpdir=d), timeout=30)
    if rr.rc == 0 and os.path.exists(ref):
        full = os.path.getsize(ref)
        for delta in ([1, 100] if tier == "quick" else [1, 2, 7, 100, 1000, 4096, 20000]):
            p = os.path.join(d, "fsize_%d.out" % delta)
            jobs.append(("scanner", "fsize-%d" % delta, p, ["-o", p], ("fsize", full - delta)))

    def one(job):
        kind, fault, path, args, k = job
        cmd = [flex.bin] + args + [spec]
        env = flex.env(tmpdir=d)
        stdout = None
        if kind == "stdout":
            f = open("/dev/full", "wb")
            res = util.run(cmd, cwd=d, env=env, timeout=30, stdout=f)
            f.close()
            return job, cmd, res, None
        if isinstance(k, tuple):
            cmd = ["prlimit", "--fsize=%d" % k[1]] + cmd
            res = util.run(cmd, cwd=d, env=env, timeout=40)
            return job, cmd, res, True
        if k is not None:
            tr = os.path.join(d, "trace_%s_%d.txt" % (kind, k))
            cmd = ["strace", "-f", "-o", tr, "-P", path, "-e", "trace=write",
                   "-e", "inject=write:error=ENOSPC:when=%d" % k] + cmd
            res = util.run(cmd, cwd=d, env=env, timeout=40)
            inj = False
            try:
                inj = "(INJECTED)" in util.read(tr)
            except OSError:
                pass
            return job, cmd, res, inj
        res = util.run(cmd, cwd=d, env=env, timeout=30)
        return job, cmd, res, None
    for job, cmd, res, inj in util.pmap(one, jobs):
        kind, fault, path, args, k = job
        chk.count(1)
        chk.nontriv("wf:%s:%s" % (kind, fault))
        err = res.err.decode("latin1")
        if k is not None and not inj:
            chk.feat1("enospc_beyond_last_write")
            # fewer than k writes: nothing injected, the run must simply succeed
            if res.rc != 0:
                chk.violation("write fault %s/%s: not injected, yet flex failed: %s" % (
                    kind, fault, err[-300:]), {"kind": "wf-spurious", "output": kind})
            continue
        chk.feat1("write_faults_injected")
        chk.feat1("wf:" + kind)
        if isinstance(k, tuple):
            chk.feat1("wf:file_size_limit")
        bad = None
        if res.timed_out:
            bad = ("wf-hang", "flex (or its filter chain) did not terminate")
        elif res.rc is not None and (res.rc < 0 or res.rc > 128) and not (
                isinstance(k, tuple) and res.rc in (-25, 153)):
            # (under a file size limit flex itself may be the one that is killed: SIGXFSZ)
            bad = ("wf-signal", "flex ended by a signal (status %s) instead of reporting the "
                   "write failure; stderr %r" % (res.rc, err[-300:]))
        elif res.rc == 0:
            bad = ("wf-exit0", "exit status 0 although the %s file could not be written (%s)" % (
                kind, fault))
        elif not err.strip() and not (isinstance(k, tuple) and res.rc in (-25, 153)):
            bad = ("wf-silent", "exit status %d without any diagnostic" % res.rc)
        if bad:
            def save(dst, cmd=cmd, err=err, job=job):
                shutil.copy(spec, dst)
                util.jdump({"cmd": cmd, "stderr": err[-3000:], "fault": job[:3]},
                           os.path.join(dst, "info.json"))
            chk.violation("write fault on %s (%s): %s" % (kind, fault, bad[1]),
                          {"kind": bad[0], "output": kind, "fault": fault.split("@")[0]}, save)


# ------------------------------------------------------------------------- command lines
ARG_OPTS = ["-P", "-o", "-S", "--prefix", "--outfile", "--skel", "--yyclass", "--emit", "--bufsize",
            "--yylmax", "--extra-type", "--yydecl", "--yyterminate", "--pre-action", "--post-action",
            "--user-init", "--backup-file"]
ODD_CLI = [["--nosuchoption"], ["-Q"], ["--prefix="], ["--bufsize=abc"], ["--bufsize=-5"],
           ["--yylmax=0", "--array"], ["--emit=cobol"], ["--emit="], ["-C"], ["-Cx"], ["-Cfz"], ["-CfF"],
           ["-+", "-CF"], ["-+", "--reentrant"], ["-+", "--array"], ["-l", "--reentrant"], ["-I", "-Cf"],
           ["-I", "-B"], ["-7", "-8"], ["--yyclass=Foo"], ["-S/nonexistent/skel"], ["--", "-v"],
           ["-o"], ["-t", "-o", "x.c"], ["-V"], ["--version"], ["-h"], ["--help"], ["-?"],
           ["--tables-file"], ["--header-file"], ["-T", "-T"], ["-n"], ["--noline", "--line"],
           ["-R"], ["--bison-bridge"], ["-d", "-s", "-p", "-p", "-v", "-b", "-L", "-w"]]


def command_lines(chk):
    """Malformed, unusual and contradictory command lines: a diagnostic and a non-zero status,
    or a normal run - never a crash, never a silent acceptance of a missing argument."""
    flex = chk.flex("san")
    d = chk.scratch.sub("cli")
    spec = os.path.join(d, "c.l")
    util.write(spec, "%option noyywrap\n%%\na+ ;\n.|\\n ;\n%%\n")
    jobs = [("missing-arg", [o]) for o in ARG_OPTS] + [("missing-arg", ["-v", o]) for o in ARG_OPTS[:6]] + \
        [("missing-arg-after-file", [spec, o]) for o in ARG_OPTS[:6]] + [("odd", o) for o in ODD_CLI]

    def one(job):
        kind, words = job
        sub = os.path.join(d, "j%d" % abs(hash((kind, tuple(words)))))
        os.makedirs(sub, exist_ok=True)
        if kind == "missing-arg-after-file":
            cmd = [flex.bin] + words
        elif kind == "missing-arg":
            cmd = [flex.bin] + words                # the option is the last word; input on stdin
        else:
            cmd = [flex.bin] + words + [spec]
        with open(spec, "rb") as fin:
            res = util.run(cmd, cwd=sub, env=flex.env(tmpdir=sub), timeout=40, cpu_s=30,
                           stdin=fin.read(), stdout=open(os.path.join(sub, "stdout.txt"), "wb"))
        return job, cmd, res
    for job, cmd, res in util.pmap(one, jobs):
        kind, words = job
        chk.count(1)
        chk.nontriv("cli:%s:%s" % (kind, " ".join(words)))
        chk.feat1("command_lines")
        err = res.err.decode("latin1")
        v = judge(res, [], "")
        if v and v[0] == "hang":
            v = ("cli-hang", "no result within 30 CPU-seconds")
        if not v and kind.startswith("missing-arg") and res.rc == 0:
            v = ("missing-argument-accepted", "exit status 0 although %s has no argument" % words[-1])
        if res.rc != 0:
            chk.feat1("command_line_rejected")
        if v:
            def save(dst, cmd=cmd, err=err):
                util.jdump({"cmd": cmd, "stderr": err[-3000:]}, os.path.join(dst, "info.json"))
            chk.violation("command line %s: %s: %s" % (" ".join(cmd[1:]), v[0], v[1]),
                          {"kind": v[0], "words": " ".join(words)}, save)


def run(pid, tier):
    chk = common.Check(pid, tier, level="fault_enumeration")
    chk.rule = RULE
    known.replay_known(chk)
    files = corpus_files()
    corpus = [util.read(p, True) for p in files]
    # generated specifications join the corpus
    for i in range(20):
        rng = chk.rng("gen", i)
        p = gen.default_profile()
        p["trail"] = 20
        p["bol"] = 20
        p["scs"] = rng.choice([0, 1, 2])
        g = gen.Gen(rng, p)
        case = g.make_case(i)
        corpus.append(emit.Emitter(case, "nr", rng).spec().encode("latin1"))
    if len(corpus) < 30:
        raise common.Harness("fuzz corpus not found under %s" % util.REPO)
    nw, nper = (32, 90) if tier == "quick" else (64, 3000)
    for o in util.pmap(fuzz_worker, [(chk, i, corpus, nper) for i in range(nw)]):
        chk.count(o["runs"])
        chk.feat(o["feats"])
        for w in o["inconc"]:
            chk.inconc(w)
        for kind, what, spec, cmd, err in o["problems"]:
            def save(dst, spec=spec, cmd=cmd, err=err):
                shutil.copy(spec, dst)
                util.jdump({"cmd": cmd, "stderr": err[-4000:]}, os.path.join(dst, "info.json"))
            chk.violation("fuzz: %s: %s\n  cmd: %s" % (kind, what, " ".join(cmd[1:])),
                          {"kind": kind}, save)
    for i in range(chk.evaluations):
        if i < 5000:
            chk.nontriv("fuzz%d" % i)
    limits(chk)
    command_lines(chk)
    write_faults(chk, tier)
    chk.sample({"corpus_files": len(files), "example_options": OPTSETS[1:6]})
    chk.require("accepted", 50)
    chk.require("rejected", 200)
    chk.require("limit_rejected", 3)
    chk.require("write_faults_injected", 10)
    chk.require("command_line_rejected", 15)
    for m in ("msg:unrecognized rule", "msg:bad character", "msg:undefined definition"):
        chk.require(m)
    return chk


def replay(d):
    import json
    from .. import build
    info = json.load(open(os.path.join(d, "info.json")))
    print("replay: run", " ".join(info["cmd"]))
    return 2
