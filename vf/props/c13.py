"""C13 -- memory safety of generated scanners and release of everything they allocate."""
import os, shutil
from .. import common, util, gen, scripts, stream, runner, model, known
from . import lib, tokens

RULE = ("union of the workloads of C03-C11 (delivery schedules and tiny buffers, start-condition "
        "stacks, REJECT, yymore/yyless/yyunput/yyinput, yywrap chains, buffer-operation "
        "histories) re-run with %option noyyalloc/noyyrealloc/noyyfree and a ledger allocator: "
        "every pointer handed to yyfree/yyrealloc must be known, and after the user deleted "
        "their own non-current buffers and called yylex_destroy the ledger must be empty; the "
        "scanner is then used a second time (destroy-and-reuse) and must produce the model's "
        "stream again; boundary sizes: tokens around the buffer size, %array tokens around "
        "YYLMAX (documented fatal error expected exactly when the token does not fit); all "
        "under ASan+UBSan, plus a sample under valgrind memcheck on an uninstrumented build "
        "(uninitialised reads)")

MAKERS = [("c03", tokens.c03_job), ("c05", tokens.c05_job), ("c07", tokens.c07_job),
          ("c08", tokens.c08_job), ("c10", tokens.c10_job), ("c11", tokens.c11_job),
          ("c04", tokens.c04_job), ("c09", tokens.c09_job)]


def make_job(chk, rng, i):
    name, mk = MAKERS[i % len(MAKERS)]
    job = mk(chk, rng, i // len(MAKERS) * 7 + i)
    case = job["case"]
    case["opts"]["ledger"] = True
    d = case.setdefault("driver", {})
    d["fini"] = list(d.get("fini", [])) + [("gdelete_all",)]
    # destroy-and-reuse: a second session on the same scanner
    d["sessions"] = 2
    cfgs = []
    for c in job["configs"]:
        if c["flavour"] == "cxx" or c.get("deliv"):
            continue        # (the look-ahead monitor counts bytes per run, not per session)
        cfgs.append(c)
    job["configs"] = cfgs[:2]
    job["inputs"] = job["inputs"][:8]
    # the budget counts both sessions
    case["budget"] = {"events": 2 * case.get("budget", {}).get("events", 600)}
    job["features"] = list(job.get("features", [])) + ["workload:" + name]
    return job


def yylmax_job(chk, rng, i):
    """%array tokens around YYLMAX."""
    p = gen.default_profile()
    p["nrules"] = (1, 4)
    p["depth"] = 1
    g, case = tokens.base_case(chk, rng, p)
    ylm = rng.choice([8, 16, 33])
    case["rules"].append({"scs": None, "bol": False,
                          "pat": ("plus", ("ccl", False, [("c", 120), ("c", 121)])),
                          "trail": None, "act": []})
    case["rules"].append({"scs": None, "bol": False,
                          "pat": ("cat", [("chr", 122), ("plus", ("chr", 119))]),
                          "trail": ("chr", 33), "act": [("if", 1, 100, 50, [("more",)])]})
    scripts.decorate(case, rng, {"ret": 20, "more": 30})
    case["opts"]["ledger"] = True
    case["driver"] = {"sessions": 2, "fini": []}
    inputs = []
    ctx = gen.ctx_of(case)
    for k in range(10):
        n = ylm + rng.rint(-3, 2)
        s = g.make_input(case, ctx, maxlen=20) + bytes(rng.choice(b"xy") for _ in range(max(1, n))) + \
            b" z" + b"w" * max(1, ylm + rng.rint(-4, 1)) + b"! " + g.make_input(case, ctx, maxlen=20)
        inputs.append({"sources": [s], "sched": rng.choice([[0], [1], [5]])})
    fl = tokens.rotate(i, tokens.FLAV3)
    cfg = {"flavour": fl, "flexargs": (), "opts": {"array": True, "yylmax": ylm}}
    case["budget"] = {"events": 1200}
    return {"case": case, "configs": [cfg], "inputs": inputs, "skip_if": tokens.dangerous,
            "features": ["workload:yylmax"]}


def pushback_job(chk, rng, i):
    """yyunput() of more text than the buffer can take: the documented fatal error must
    come before anything is written outside the buffer."""
    p = gen.default_profile()
    p["nrules"] = (1, 3)
    p["depth"] = 1
    g, case = tokens.base_case(chk, rng, p)
    n = rng.choice([16500, 20000, 33000])
    case["rules"].insert(0, {"scs": None, "bol": False, "pat": ("chr", 112), "trail": None,
                             "act": [("unput", bytes(rng.choice(b"ab") for _ in range(n)))]})
    case["opts"]["ledger"] = True
    case["driver"] = {"fini": []}
    ctx = gen.ctx_of(case)
    inputs = [{"sources": [g.make_input(case, ctx, maxlen=20) + b" p " + g.make_input(case, ctx, maxlen=20)],
               "sched": [0]} for _ in range(2)]
    fl = tokens.rotate(i, tokens.FLAV3)
    cfg = {"flavour": fl, "flexargs": (), "opts": {}}
    case["budget"] = {"events": 400}
    return {"case": case, "configs": [cfg], "inputs": inputs, "skip_if": tokens.dangerous,
            "features": ["workload:pushback_overflow"]}


def stack_reuse_job(chk, rng, i):
    """A scanner given up while start conditions are still stacked (more than the first
    allocation of the stack holds), destroyed, and used again with the same nesting."""
    p = gen.default_profile()
    p["nrules"] = (1, 3)
    p["depth"] = 1
    p["scs"] = 2
    g, case = tokens.base_case(chk, rng, p)
    nsc = len(case["scs"])
    case["rules"].insert(0, {"scs": "*", "bol": False, "pat": ("chr", 40), "trail": None,
                             "act": [("push", rng.below(nsc)), ("top",)]})
    case["rules"].insert(1, {"scs": "*", "bol": False, "pat": ("chr", 41), "trail": None,
                             "act": [("if", 5, 100, 60, [("pop",)])]})
    case["rules"].insert(2, {"scs": "*", "bol": False, "pat": ("chr", 33), "trail": None,
                             "act": [("ret", 0)]})       # the caller gives up here
    case["uses"] = ["stack"]
    case["opts"]["ledger"] = True
    case["driver"] = {"sessions": 2, "fini": []}
    ctx = gen.ctx_of(case)
    inputs = []
    for k in range(4):
        n = rng.choice([26, 30, 51, 60, 110])
        s = g.make_input(case, ctx, maxlen=10).replace(b"!", b"") + b"(" * n + b"x" + b")" * rng.rint(0, 3) + b"!" + \
            g.make_input(case, ctx, maxlen=10)
        inputs.append({"sources": [s], "sched": rng.choice([[0], [1]])})
    fl = tokens.rotate(i, tokens.FLAV3)
    cfg = {"flavour": fl, "flexargs": (), "opts": {}}
    case["budget"] = {"events": 1500}
    return {"case": case, "configs": [cfg], "inputs": inputs, "skip_if": tokens.dangerous,
            "features": ["workload:stack_left_deep_then_reuse"]}


def memcheck_sample(chk, n):
    flex = chk.flex("san")
    for i in range(n):
        rng = chk.rng("memcheck", i)
        job = [tokens.c08_job, tokens.c11_job, tokens.c07_job][i % 3](chk, rng, 1000 + i)
        case = job["case"]
        cfg = dict(job["configs"][0])
        cfg["cc"] = "plain"
        if cfg["flavour"] == "cxx":
            continue
        c2 = dict(case)
        c2["opts"] = dict(case["opts"])
        c2["opts"]["flavour"] = cfg["flavour"]
        for k, v in cfg.get("opts", {}).items():
            c2["opts"][k] = v
        wd = os.path.join(chk.scratch.path, "mc%d" % i)
        b = runner.build_scanner(flex, c2, cfg["flavour"], wd, cfg.get("flexargs", ()), "plain",
                                 util.Rng(case["seed"], "emit"))
        if not b.ok:
            continue
        if "dangerous trailing context" in b.warnings:
            continue        # exempt by the manual (as in the checks the job comes from)
        inp = job["inputs"][0]
        ci = stream.with_input(c2, inp)
        from .. import emit
        packp = os.path.join(wd, "m.pack")
        logp = os.path.join(wd, "m.log")
        util.write(packp, emit.pack(ci, inp.get("sched"), inp.get("flags", 0), 0, (), inp.get("bufsize", 0)))
        res = util.run(["valgrind", "-q", "--error-exitcode=77", "--malloc-fill=0xa5", "--free-fill=0x5a",
                        b.exe, packp, logp], cwd=wd, env=util.clean_env(), timeout=300)
        chk.count(1)
        chk.nontriv("memcheck%d" % i)
        err = res.err.decode("latin1")
        if res.timed_out:
            chk.inconc("memcheck watchdog")
        elif res.rc == 77 or "uninitialised" in err or "Invalid " in err:
            def save(d, b=b, ci=ci, err=err):
                runner.save_replay(d, b, ci, None, {"valgrind": err[-4000:]})
            chk.violation("memcheck: %s" % err[-2500:], {"kind": "memcheck"}, save)
        else:
            chk.feat1("memcheck_clean")
            log = util.read(logp) if os.path.exists(logp) else ""
            ok, info = model.check(ci, log)
            if not ok:
                chk.violation("memcheck run diverges from the model: %s" % stream.fmt_div(info),
                              {"kind": "diverge"})
        shutil.rmtree(wd, ignore_errors=True)


def run(pid, tier):
    chk = common.Check(pid, tier)
    chk.rule = RULE
    n, ny, nm = (96, 12, 6) if tier == "quick" else (2400, 200, 120)
    lib.explore(chk, range(n), make_job)
    lib.explore_more = None
    items = [(chk, 50000 + i, yylmax_job) for i in range(ny)]
    for i, job, res in util.pmap(lib.worker, items):
        if job is None:
            continue
        chk.count(res.runs)
        chk.feat(res.features)
        chk.feat1("builds", res.builds)
        for k in job.get("features", []):
            chk.feat1(k)
        for ii in range(res.runs):
            chk.nontriv("y%d/%d" % (i, ii))
        for p in res.problems:
            chk.violation("yylmax case %d cfg %s: %s: %s" % (i, stream.cfg_tag(p["cfg"]), p["kind"], p["what"]),
                          {"kind": p["kind"]}, stream.save_problem(p))
    items = [(chk, 60000 + i, pushback_job) for i in range(3 if tier == "quick" else 30)]
    for i, job, res in util.pmap(lib.worker, items):
        if job is None:
            continue
        chk.count(res.runs)
        chk.feat(res.features)
        for k in job.get("features", []):
            chk.feat1(k)
        for ii in range(res.runs):
            chk.nontriv("u%d/%d" % (i, ii))
        for p in res.problems:
            chk.violation("push-back case %d cfg %s: %s: %s" % (i, stream.cfg_tag(p["cfg"]), p["kind"],
                                                               p["what"]),
                          {"kind": p["kind"]}, stream.save_problem(p))
    items = [(chk, 70000 + i, stack_reuse_job) for i in range(3 if tier == "quick" else 30)]
    for i, job, res in util.pmap(lib.worker, items):
        if job is None:
            continue
        chk.count(res.runs)
        chk.feat(res.features)
        for k in job.get("features", []):
            chk.feat1(k)
        for ii in range(res.runs):
            chk.nontriv("s%d/%d" % (i, ii))
        for p in res.problems:
            chk.violation("stack reuse case %d cfg %s: %s: %s" % (i, stream.cfg_tag(p["cfg"]), p["kind"],
                                                                 p["what"]),
                          {"kind": p["kind"]}, stream.save_problem(p))
    memcheck_sample(chk, nm)
    for name, _ in MAKERS:
        chk.require("workload:" + name)
    chk.require("destroy_and_reuse", 50)
    chk.require("token_too_large", 1)
    chk.require("workload:pushback_overflow", 2)
    chk.require("workload:stack_left_deep_then_reuse", 2)
    chk.require("memcheck_clean", 2)
    return chk


def replay(d):
    return lib.replay(d)
