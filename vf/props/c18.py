"""C18 -- deterministic, reproducible generation."""
import os, glob, shutil, hashlib
from .. import common, util, gen, emit, runner, known
from . import c16

RULE = ("each specification (tracked .l files of the repository, generated rule sets incl. a "
        "'large' profile that makes the generator reallocate its tables) x option set is "
        "generated repeatedly under perturbation: MALLOC_PERTURB_ values, an LD_PRELOAD "
        "allocator shim that junk-fills and pads every block (changing heap layout) and skews "
        "time(), another cwd/TMPDIR/argv[0], ASan's own fill bytes, and -t instead of -o; all "
        "outputs (scanner, header, tables, backup) must be byte-identical (file names in #line "
        "normalised for -t).  A sample also runs under valgrind memcheck (uninitialised values "
        "reaching a branch or a write are errors).  Finally scan.l is regenerated with the "
        "flex built from the stage-1 scanner and compared with it")

SHIM = r"""
#define _GNU_SOURCE
#include <stddef.h>
#include <stdlib.h>
#include <string.h>
#include <malloc.h>
#include <time.h>
extern void *__libc_malloc(size_t);
extern void *__libc_realloc(void *, size_t);
extern void *__libc_calloc(size_t, size_t);
extern void __libc_free(void *);
static int inited; static unsigned fill = 0xA5, pad = 0, rs = 12345; static long skew;
static void init(void) { const char *e; inited = 1;
  if ((e = getenv("VF_FILL"))) fill = (unsigned) strtoul(e, 0, 0);
  if ((e = getenv("VF_PAD"))) pad = (unsigned) strtoul(e, 0, 0);
  if ((e = getenv("VF_RS"))) rs = (unsigned) strtoul(e, 0, 0);
  if ((e = getenv("VF_SKEW"))) skew = strtol(e, 0, 0); }
static unsigned rnd(void) { rs = rs * 1103515245u + 12345u; return (rs >> 8) & 0xffffff; }
void *malloc(size_t n) { size_t x; void *p; if (!inited) init(); x = pad ? rnd() % pad : 0;
  p = __libc_malloc(n + x); if (p) memset(p, (int) fill, n + x); return p; }
void *calloc(size_t a, size_t b) { size_t x; void *p; if (!inited) init(); x = pad ? rnd() % pad : 0;
  if (b && a > ((size_t) -1 - x) / b) return 0;
  p = __libc_malloc(a * b + x); if (p) { memset(p, 0, a * b); memset((char *) p + a * b, (int) fill, x); } return p; }
void *realloc(void *p, size_t n) { size_t old, x; void *q; if (!inited) init();
  if (!p) return malloc(n); old = malloc_usable_size(p); x = pad ? rnd() % pad : 0;
  if (pad && (rnd() & 1)) { q = __libc_malloc(n + x); if (!q) return 0; memset(q, (int) fill, n + x);
    memcpy(q, p, old < n ? old : n); memset(p, (int) ~fill, old); __libc_free(p); return q; }
  q = __libc_realloc(p, n + x); if (q && n + x > old) memset((char *) q + old, (int) fill, n + x - old); return q; }
void free(void *p) { if (!p) return; if (!inited) init(); memset(p, (int) ~fill, malloc_usable_size(p)); __libc_free(p); }
time_t time(time_t *t) { struct timespec ts; time_t v; if (!inited) init(); clock_gettime(CLOCK_REALTIME, &ts);
  v = ts.tv_sec + skew; if (t) *t = v; return v; }
"""

OPTSETS = [
    ("default", []), ("full", ["-Cf"]), ("fast", ["-CF"]), ("Cem-align", ["-Cem", "-Ca"]),
    ("nocompress", ["-C"]), ("reentrant", ["--reentrant"]), ("cxx", ["-+"]), ("c99", ["--emit=c99"]),
    ("tables", ["--tables-file=@T"]), ("header", ["--header-file=@H"]), ("backup", ["-b"]),
    ("tables-verify-Cf", ["--tables-file=@T", "-Cf"]), ("perf", ["-p", "-v"]),
    # option values longer than the generator's fixed-size text buffers
    ("long-prefix", ["-P" + "long_prefix_" * 11 + "x"]),
]


def build_shim(chk):
    d = chk.scratch.sub("shim")
    src = os.path.join(d, "perturb.c")
    util.write(src, SHIM)
    so = os.path.join(d, "perturb.so")
    r = util.run(["gcc", "-O1", "-shared", "-fPIC", "-o", so, src], cwd=d, env=util.clean_env(),
                 timeout=120)
    if r.rc != 0:
        raise common.Harness("cannot build allocator shim: %s" % r.err.decode()[-500:])
    return so


def variants(so, tier):
    v = [("baseline", "plain", {}, False),
         ("perturb1", "plain", {"MALLOC_PERTURB_": "1"}, False),
         ("perturb170", "plain", {"MALLOC_PERTURB_": "170"}, False),
         ("shim5a", "plain", {"LD_PRELOAD": so, "VF_FILL": "0x5a", "VF_PAD": "0", "VF_SKEW": "86400"}, False),
         ("shimff-pad", "plain", {"LD_PRELOAD": so, "VF_FILL": "0xff", "VF_PAD": "96", "VF_RS": "7",
                                  "VF_SKEW": "-100000"}, False),
         ("shim01-pad-cwd", "plain", {"LD_PRELOAD": so, "VF_FILL": "0x01", "VF_PAD": "40", "VF_RS": "99"}, True),
         ("stdout", "plain", {}, False),
         ("asan-fill", "san", {"ASAN_OPTIONS": "detect_leaks=0:malloc_fill_byte=171:"
                               "max_malloc_fill_size=100000000:exitcode=99"}, False)]
    return v


def gen_one(chk, flexes, spec, name, optname, opts, var, d):
    vname, fv, env_extra, othercwd = var
    flex = flexes[fv]
    wd = os.path.join(d, vname)
    os.makedirs(wd, exist_ok=True)
    cwd = wd
    if othercwd:
        cwd = os.path.join(wd, "elsewhere", "deep")
        os.makedirs(cwd, exist_ok=True)
    sp = os.path.join(wd, "s.l")
    shutil.copy(spec, sp)
    outs = {"scanner": os.path.join(wd, "s.c")}
    args = []
    for o in opts:
        if "@T" in o:
            outs["tables"] = os.path.join(wd, "s.tbl")
            o = o.replace("@T", outs["tables"])
        if "@H" in o:
            outs["header"] = os.path.join(wd, "s.h")
            o = o.replace("@H", outs["header"])
        args.append(o)
    if "-b" in opts:
        outs["backup"] = os.path.join(cwd, "lex.backup")
    binp = flex.bin
    if othercwd:
        # another argv[0]
        alt = os.path.join(wd, "flex-renamed")
        if not os.path.exists(alt):
            os.symlink(flex.bin, alt)
        binp = alt
    env = flex.env(tmpdir=wd, extra=env_extra)
    if vname == "stdout":
        with open(outs["scanner"], "wb") as f:
            res = util.run([binp] + args + ["-t", sp], cwd=cwd, env=env, timeout=120, stdout=f)
    else:
        res = util.run([binp] + args + ["-o", outs["scanner"], sp], cwd=cwd, env=env, timeout=120)
    data = {}
    for k, p in outs.items():
        try:
            b = util.read(p, True)
        except OSError:
            b = None
        if b is not None:
            # file names differ between work directories by construction
            b = b.replace(wd.encode() + b"/", b"@WD@/").replace(b"<stdout>", b"@WD@/s.c")
            b = b.replace(b"flex-renamed", b"flex")
        data[k] = b
    err = res.err.decode("latin1").replace(binp, "@FLEX@").replace(flex.bin, "@FLEX@")
    err = err.replace(wd + "/", "@WD@/")
    # the -v statistics echo the command line (output path, -t): not an output of generation
    err = "\n".join(l for l in err.split("\n") if not l.startswith("  scanner options:")
                    and "usage statistics" not in l)
    return res, data, err


def spec_worker(args):
    chk, flexes, so, idx, spec, name, optsets, tier = args
    d = os.path.join(chk.scratch.path, "s%d" % idx)
    out = {"runs": 0, "problems": [], "feats": {}, "name": name}

    def feat(k, n=1):
        out["feats"][k] = out["feats"].get(k, 0) + n
    for optname, opts in optsets:
        base = None
        feat("optset:" + optname)
        for var in variants(so, tier):
            res, data, err = gen_one(chk, flexes, spec, name, optname, opts, var, os.path.join(d, optname))
            out["runs"] += 1
            if res.timed_out:
                out["problems"].append(("timeout", "%s %s %s" % (name, optname, var[0]), None))
                continue
            if "AddressSanitizer" in err or "runtime error" in err:
                out["problems"].append(("sanitizer", "%s %s %s: %s" % (name, optname, var[0], err[-1500:]), None))
                continue
            if base is None:
                base = (res.rc, data, err, var[0])
                if res.rc == 0:
                    feat("generated")
                    for k, b in data.items():
                        if b:
                            feat("compared:" + k)
                else:
                    feat("refused")
                continue
            brc, bdata, berr, bname = base
            if res.rc != brc:
                out["problems"].append(("exit-status", "%s [%s]: exit %s under %s but %s under %s" % (
                    name, optname, brc, bname, res.rc, var[0]), None))
                continue
            for k in bdata:
                if brc != 0:
                    break       # refused: there is no output to compare
                if bdata[k] != data.get(k):
                    a, b = bdata[k], data.get(k)
                    where = "?"
                    if a is not None and b is not None:
                        n = min(len(a), len(b))
                        i = next((j for j in range(n) if a[j] != b[j]), n)
                        where = "first difference at byte %d: %r vs %r" % (i, a[max(0, i - 40):i + 40],
                                                                          b[max(0, i - 40):i + 40])
                    out["problems"].append(("output-differs", "%s [%s]: %s differs between %s and %s; %s" % (
                        name, optname, k, bname, var[0], where), (spec, opts, var[0])))
            # diagnostics must not depend on the heap either (ignore ASan's own lines)
            if var[1] == "plain" and berr != err and res.rc == brc:
                out["problems"].append(("stderr-differs", "%s [%s]: diagnostics differ between %s and "
                                        "%s: %r vs %r" % (name, optname, bname, var[0], berr[-300:], err[-300:]),
                                        (spec, opts, var[0])))
        shutil.rmtree(os.path.join(d, optname), ignore_errors=True)
    return out


def memcheck(chk, specs, tier):
    flex = chk.flex("plain")
    d = chk.scratch.sub("memcheck")
    n = 5 if tier == "quick" else 60

    def one(item):
        i, (spec, name) = item
        wd = os.path.join(d, "m%d" % i)
        os.makedirs(wd, exist_ok=True)
        opts = [[], ["-Cf"], ["-CF"], ["-Cem", "-Ca"], ["--tables-file=" + os.path.join(wd, "t")]][i % 5]
        cmd = ["valgrind", "-q", "--error-exitcode=77", "--child-silent-after-fork=yes",
               "--malloc-fill=0x5c", "--free-fill=0xc5", flex.bin] + opts + [
                   "-o", os.path.join(wd, "s.c"), spec]
        res = util.run(cmd, cwd=wd, env=flex.env(tmpdir=wd), timeout=600)
        return name, opts, res
    for name, opts, res in util.pmap(one, list(enumerate(specs[:n]))):
        chk.count(1)
        chk.nontriv("memcheck:" + name + "".join(opts))
        err = res.err.decode("latin1")
        if res.timed_out:
            chk.inconc("memcheck watchdog on %s" % name)
        elif res.rc == 77 or "uninitialised" in err or "Invalid read" in err or "Invalid write" in err:
            chk.violation("memcheck on %s %s: %s" % (name, opts, err[-2500:]),
                          {"kind": "memcheck"})
        else:
            chk.feat1("memcheck_clean")


def bootstrap(chk):
    flex = chk.flex("plain")
    d = chk.scratch.sub("boot")
    for f in ("scan.l", "flexdef.h", "parse.h"):
        shutil.copy(os.path.join(flex.root, f), d)
    with open(os.path.join(d, "stage2scan.c"), "wb") as f:
        res = util.run([flex.bin, "-o", "scan.c", "-t", "scan.l"], cwd=d, env=flex.env(tmpdir=d),
                       timeout=120, stdout=f)
    chk.count(1)
    chk.nontriv("bootstrap")
    a = util.read(os.path.join(flex.root, "stage1scan.c"), True)
    b = util.read(os.path.join(d, "stage2scan.c"), True)
    if res.rc != 0:
        chk.violation("bootstrap: flex failed on its own scan.l: %s" % res.err[-500:], {"kind": "bootstrap"})
    elif a != b:
        chk.violation("bootstrap: scan.l regenerated by the flex built from the stage-1 scanner differs "
                      "from the stage-1 scanner (%d vs %d bytes)" % (len(a), len(b)), {"kind": "bootstrap"})
    else:
        chk.feat1("bootstrap_identical")
        chk.extra["bootstrap_bytes"] = len(a)


def run(pid, tier):
    chk = common.Check(pid, tier)
    chk.rule = RULE
    known.replay_known(chk)
    flexes = {"plain": chk.flex("plain"), "san": chk.flex("san")}
    so = build_shim(chk)
    specdir = chk.scratch.sub("specs")
    specs = []
    files = c16.corpus_files()
    rng = chk.rng("pick")
    nfiles, ngen, nopt = (10, 6, 3) if tier == "quick" else (84, 60, 8)
    picked = rng.sample(files, min(nfiles, len(files)))
    for p in picked:
        specs.append((p, os.path.relpath(p, util.REPO)))
    from . import c01
    for i in range(ngen):
        r2 = chk.rng("gen", i)
        pr = gen.default_profile()
        pr["trail"] = 20
        pr["bol"] = 20
        pr["scs"] = r2.choice([0, 1, 3])
        g = gen.Gen(r2, pr)
        case = c01.large_case(g, r2, i) if i % 3 == 0 else g.make_case(i)
        for r in case["rules"]:
            if r["act"] != "|":
                r["act"] = [("ret", 1)] if r2.chance(30) else []
        p = os.path.join(specdir, "gen%d.l" % i)
        util.write(p, emit.Emitter(case, "nr", r2).spec().encode("latin1"))
        specs.append((p, "generated:%d%s" % (i, ":large" if i % 3 == 0 else "")))
    jobs = []
    ngs = 0
    for idx, (p, name) in enumerate(specs):
        r3 = chk.rng("opts", idx)
        rest = OPTSETS[1:]
        osets = [OPTSETS[0]] + [rest[(idx * (nopt - 1) + j) % len(rest)] for j in range(nopt - 1)]
        if "large" in name:
            osets = [OPTSETS[0], OPTSETS[3], OPTSETS[8]]
        elif name.startswith("generated:"):
            # generated specifications are always accepted: between them they cover every
            # option set whatever the seed picked from the corpus
            osets = [OPTSETS[0]] + [rest[(ngs * 3 + j) % len(rest)] for j in range(3)]
            if ngs % 6 == 1 and OPTSETS[-1] not in osets:
                osets.append(OPTSETS[-1])
            ngs += 1
        jobs.append((chk, flexes, so, idx, p, name, osets, tier))
    for o in util.pmap(spec_worker, jobs):
        chk.count(o["runs"])
        chk.feat(o["feats"])
        chk.nontriv(o["name"])
        for kind, what, rep in o["problems"]:
            def save(dst, rep=rep):
                if rep:
                    shutil.copy(rep[0], dst)
                    util.jdump({"options": rep[1], "variant": rep[2]}, os.path.join(dst, "info.json"))
            chk.violation("%s: %s" % (kind, what), {"kind": kind}, save)
    memcheck(chk, specs, tier)
    bootstrap(chk)
    chk.sample({"specs": [n for _, n in specs][:8], "variants": [v[0] for v in variants(so, tier)]})
    for k in ("compared:scanner", "compared:header", "compared:tables", "compared:backup",
              "memcheck_clean", "bootstrap_identical", "optset:long-prefix", "optset:c99", "optset:cxx"):
        chk.require(k)
    return chk


def replay(d):
    print("replay: re-run the check (cases are regenerated from the seed)")
    return 2
