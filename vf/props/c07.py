"""C07 -- see DESIGN.md section 4 (C07); job maker in tokens.py."""
from .. import common
from . import lib, tokens


def run(pid, tier):
    chk = common.Check(pid, tier)
    n = 80 if tier == "quick" else 1200
    chk.rule = RULE
    lib.explore(chk, range(n), tokens.c07_job)
    for k, m in REQUIRED.items():
        chk.require(k, m)
    return chk


def replay(d):
    return lib.replay(d)


RULE = ("case = overlapping rules whose actions reject always or by hash, with start "
        "conditions, trailing context, NUL bytes, small reads/buffers, %option reject")
REQUIRED = {"reject": 50, "default_rule": 1}
