"""C20 -- user code reaches the compiler verbatim, #line directives are accurate."""
import os, re, shutil
from .. import common, util, runner, known

RULE = ("case = specification with tracers in every user-code region (%top, %{ %} and indented "
        "code in sections 1 and 2, one-line / braced / %{ %} / '|' actions, <<EOF>> actions, "
        "section 3) and random layout (blank lines, comments, continued (?x: patterns, multi-line "
        "actions); every tracer carries a payload (m4 quotes [[ ]] ]]]], m4_/M4_ names, $1, "
        "backquote, quotes, comment delimiters, backslash-newline, %} in strings, high bytes) in "
        "a string literal, in a comment and - where it is valid C - as stringified code, and "
        "reports __LINE__/__FILE__; the compiled scanner prints them and they must equal the "
        "tracer's true position and bytes; every '#line N \"outfile\"' must sit at physical line "
        "N-1; -L must leave no #line")

PAYLOADS = [
    ("m4open", b"[["), ("m4close", b"]]"), ("m4close2", b"]]]]"), ("m4both", b"[[x]]"),
    ("m4nested", b"[[[[a]]]]"), ("m4unbal", b"]][["), ("m4_define", b"m4_define([[X]],[[Y]])"),
    ("m4_dnl", b"m4_dnl rest of line"), ("m4_ifdef", b"m4_ifdef([[M4_YY_REENTRANT]],[[a]],[[b]])"),
    ("M4_YY", b"M4_YY_NOOP M4_YY_OUTFILE_NAME M4_MODE_PREFIX"), ("yynames", b"yyless yymore yyterminate yytext"),
    ("dollar", b"$1 $* $@ $#"), ("backquote", b"`ls`"), ("squote", b"don't"), ("dquote", b"say \"hi\""),
    ("comment_open", b"/* open"), ("comment_close", b"close */"), ("slashslash", b"// not a comment"),
    ("percent_brace", b"%} and %{"), ("percent", b"%% %top %option"), ("high", b"caf\xe9 \xff\x80"),
    ("brackets", b"a[b[i]] c[d]"), ("hash", b"#define X 1"), ("backslash", b"a\\b\\\\c"),
    ("braces", b"{ } }{"), ("plain", b"hello"),
    # an apostrophe that is not a character constant, then m4 quotes glued to other text
    ("squote_idx", b"don't read tab[idx[0]] before it is set"), ("squote_m4open", b"it's a[[b"),
    ("charconsts", b"'[' ']' '\\'' x]]y [[z"), ("dquote_m4", b"\"]]\" \"[[\" w]]"),
    # a single bracket glued to a quote sequence
    ("brk_close", b"x[]]y"), ("brk_open", b"a][[b"), ("brk_mix", b"[]] ][[ [[] ]]["),
]
# payloads that are valid C expressions (checked as stringified code too)
CODE_PAYLOADS = [("idx", "a[b[i]]"), ("idx2", "x[[1]]".replace("[[1]]", "[y[1]]")), ("call", "f(g(1), 2)"),
                 ("arith", "p+q*r")]


def c_string(b):
    out = []
    for c in b:
        if c == 34 or c == 92:
            out.append("\\" + chr(c))
        elif 32 <= c < 127:
            out.append(chr(c))
        else:
            out.append("\\%03o" % c)
    return '"' + "".join(out) + '"'


def comment_text(b):
    # a C comment may contain anything but "*/"; raw high bytes are fine
    t = b.replace(b"*/", b"* /")
    return t.decode("latin1")


def comment_line(rng, indent, pl, region=""):
    # flex's action scanner knows /* */ comments, strings and character constants, not //
    # comments (the manual promises the former only): in regions where it counts braces a //
    # comment carries only bytes that do not open something for that scanner
    inert = not any(x in pl for x in (b'"', b"{", b"}", b"/*", b"*/"))
    verbatim_region = region in ("top", "sect1_block", "sect3")
    if rng.chance(40) and not pl.endswith(b"\\") and b"??/" not in pl and (inert or verbatim_region):
        return "%s// %s" % (indent, pl.decode("latin1"))
    return "%s/* %s */" % (indent, comment_text(pl))


class Spec:
    def __init__(self, rng, noline=False):
        self.rng = rng
        self.lines = []
        self.tracers = []      # dict(id, line, payload, region, kind)
        self.nid = 0
        self.noline = noline
        self.spans = []        # (region, first line, last line): user code copied verbatim

    def add(self, text=""):
        for l in text.split("\n"):
            self.lines.append(l)

    def lineno(self):
        return len(self.lines) + 1

    def pick(self, region=""):
        if self.rng.chance(3):
            # a line longer than any fixed line buffer of the generator's filters
            n = self.rng.choice([4000, 4094, 4096, 5000, 8190, 8200, 13000])
            return "longline", (b"long %d " % n + b"abcdefg " * (n // 8 + 1))[:n]
        while True:
            name, pl = self.rng.choice(PAYLOADS)
            if self.rng.chance(30):
                n2, p2 = self.rng.choice(PAYLOADS)
                name, pl = name + "+" + n2, pl + self.rng.choice([b" ", b"", b" x"]) + p2
            # %top{ } is delimited by counting braces (the manual documents nothing more), and a
            # %{ action ends at the next %} wherever it stands: keep those bytes out of there
            if region == "top" and (b"{" in pl or b"}" in pl):
                continue
            if region == "action_percent" and b"%}" in pl:
                continue
            return name, pl

    def decl_tracer(self, region, indent=""):
        """Tracer usable where declarations are allowed."""
        name, pl = self.pick(region)
        i = self.nid
        self.nid += 1
        if self.rng.chance(40):
            self.add(comment_line(self.rng, indent, pl, region))
        ln = self.lineno()
        self.add("%sstatic const struct vt vt_%d = { %d, __LINE__, __FILE__, %s, %d };" % (
            indent, i, i, c_string(pl), len(pl)))
        self.tracers.append({"id": i, "line": ln, "payload": pl, "region": region, "kind": name,
                             "static": True})
        if self.rng.chance(25):
            cn, code = self.rng.choice(CODE_PAYLOADS)
            j = self.nid
            self.nid += 1
            ln = self.lineno()
            self.add("%sstatic const struct vt vt_%d = { %d, __LINE__, __FILE__, VSTR(%s), %d };" % (
                indent, j, j, code, len(code)))
            self.tracers.append({"id": j, "line": ln, "payload": code.encode(), "region": region,
                                 "kind": "code:" + cn, "static": True})

    def stmt_tracer(self, region, indent="\t", oneline=False):
        name, pl = self.pick(region)
        if oneline:
            # a one-line action ends at the line end: no backslash games needed
            pass
        i = self.nid
        self.nid += 1
        txt = ""
        if self.rng.chance(30) and not oneline:
            self.add(comment_line(self.rng, indent, pl, region))
        if self.rng.chance(12) and not oneline:
            # a string / character constant continued over a line with backslash-newline: the
            # lines after it must still be numbered correctly
            # (the continuation keeps the indentation: in indented code a line that starts in
            # column one would end the code and be read as a rule)
            if self.rng.chance(70) or indent:
                self.add(indent + '{ static const char vt_s%d[] = "split \\' % i)
                self.add(indent + 'string"; (void) vt_s%d; }' % i)
            else:
                self.add(indent + "{ int vt_c%d = '\\" % i)
                self.add("x'; (void) vt_c%d; }" % i)
            self.split_strings = getattr(self, "split_strings", 0) + 1
        ln = self.lineno()
        s = "vt_report(%d, __LINE__, __FILE__, %s, %d);" % (i, c_string(pl), len(pl))
        self.tracers.append({"id": i, "line": ln, "payload": pl, "region": region, "kind": name,
                             "static": False})
        return indent + s if not oneline else s

    def blanks(self):
        for _ in range(self.rng.below(3)):
            self.add("")


def make_spec(rng, noline, c99=False):
    S = Spec(rng, noline)
    R = rng
    if noline:
        S.add("%option noline")
    # ---- %top
    if R.chance(70):
        S.add("%top{")
        S.add("#include <stdio.h>")
        S.add("#include <string.h>")
        S.add("struct vt { int id; int line; const char *file; const char *payload; int len; };")
        S.add("#define VSTR2(...) #__VA_ARGS__")
        S.add("#define VSTR(...) VSTR2(__VA_ARGS__)")
        for _ in range(R.rint(1, 3)):
            S.decl_tracer("top", "  ")
        S.add("}")
        top = True
    else:
        top = False
    S.blanks()
    S.add("%{")
    if not top:
        S.add("#include <stdio.h>")
        S.add("#include <string.h>")
        S.add("struct vt { int id; int line; const char *file; const char *payload; int len; };")
        S.add("#define VSTR2(...) #__VA_ARGS__")
        S.add("#define VSTR(...) VSTR2(__VA_ARGS__)")
    S.add("static void vt_report(int id, int line, const char *file, const char *p, int n);")
    a = S.lineno()
    for _ in range(R.rint(1, 3)):
        S.decl_tracer("sect1_block")
        S.blanks()
    S.spans.append(("sect1_block", a, S.lineno() - 1))
    S.add("%}")
    S.blanks()
    # the rest of the definitions section in a seeded order: more %{ blocks (with runs of
    # blank lines), lines of indented code (adjacent and separated), definitions, comments
    items = [("opt",), ("xc",), ("name",)]
    if R.chance(50):
        items.append(("comment",))
    for _ in range(R.rint(0, 2)):
        items.append(("indented", R.rint(1, 2)))
    for _ in range(R.rint(0, 2)):
        items.append(("block",))
    for _ in range(R.rint(0, 2)):
        items.append(("blank",))
    if R.chance(30):
        items.append(("def2",))
    R.shuffle(items)
    for it in items:
        if it[0] == "opt":
            S.add("%option noyywrap")
            if c99:
                S.add('%option emit="c99"')
        elif it[0] == "xc":
            S.add("%x XC")
        elif it[0] == "name":
            S.add("NAME  [a-z]+")
        elif it[0] == "def2":
            S.add("DIG   [0-9]")
        elif it[0] == "comment":
            S.add("/* a comment in the definitions section: %s */" % comment_text(R.choice(PAYLOADS)[1]))
        elif it[0] == "indented":
            for _ in range(it[1]):
                S.decl_tracer("sect1_indented", "    ")
        elif it[0] == "blank":
            S.blanks()
        else:
            S.add("%{")
            a = S.lineno()
            for _ in range(R.rint(1, 2)):
                S.decl_tracer("sect1_block")
                for _ in range(R.below(4)):
                    S.add("")
            S.spans.append(("sect1_block", a, S.lineno() - 1))
            S.add("%}")
    S.blanks()
    S.add("%%")
    # ---- section 2 prolog
    # code at the start of section 2 is local to yylex(): statement tracers, run on entry
    if R.chance(60):
        S.add("%{")
        for _ in range(R.rint(1, 3)):
            # (lines of the block with and without white space in front take different paths)
            S.add(S.stmt_tracer("sect2_block", R.choice(["\t", "", "", "  "])))
        S.add("%}")
    if R.chance(40):
        S.add(S.stmt_tracer("sect2_indented", "    "))
    S.blanks()
    # ---- rules
    nrule = R.rint(4, 9)
    words = []
    pending_bar = False
    for k in range(nrule):
        w = "@%d@" % k
        words.append(w)
        patt = '"%s"' % w
        style = R.below(7)
        if R.chance(20):
            form = R.below(3)
            if form == 0:
                patt = "(?x: \"%s\"\n     /* continued pattern */ )" % w
            elif form == 1:
                # a comment spanning several lines inside the pattern
                patt = "(?x: \"%s\"  /* a comment\n   over %s\n   lines */\n )" % (
                    w, R.choice(["several", "three", "[[ ]]"]))
        if "\n" in patt:
            first, rest = patt.split("\n", 1)
        if style == 0 and k < nrule - 1:
            for l in (patt + "\t|").split("\n"):
                S.add(l)
            continue
        if style == 1:
            # one-line action
            pl = patt.split("\n")
            for l in pl[:-1]:
                S.add(l)
            t = S.stmt_tracer("action_oneline", "", oneline=True)
            S.lines.append(pl[-1] + "\t" + t)
        elif style in (2, 3, 0):
            pl = patt.split("\n")
            for l in pl[:-1]:
                S.add(l)
            S.lines.append(pl[-1] + "\t{")
            for _ in range(R.rint(1, 3)):
                S.add(S.stmt_tracer("action_braced"))
                if R.chance(30):
                    S.add("")
                if R.chance(30):
                    S.add("\t{ /* nested { brace } */ }")
            S.add("\t}")
        elif style == 4:
            pl = patt.split("\n")
            for l in pl[:-1]:
                S.add(l)
            S.lines.append(pl[-1] + "\t%{")
            S.add(S.stmt_tracer("action_percent"))
            S.add("\tif (0) { /* unbalanced ok inside %%{ %%} } */ }")
            S.add("%}")
        elif style == 5:
            pl = patt.split("\n")
            for l in pl[:-1]:
                S.add(l)
            S.lines.append(pl[-1] + "\t{ " + S.stmt_tracer("action_braced_oneline", "", True) + " }")
        else:
            pl = patt.split("\n")
            for l in pl[:-1]:
                S.add(l)
            S.lines.append(pl[-1] + "\t{")
            S.add(S.stmt_tracer("action_string_tricks"))
            S.add("\tif (strlen(\"}\") != 1 || '}' != 125 || '\\'' != 39) return 99;")
            S.add("\t}")
        S.blanks()
        if R.chance(25):
            # a comment line of its own between two rules
            S.add("    /* between rules: %s */" % comment_text(S.pick("action_braced")[1]))
            S.between = getattr(S, "between", 0) + 1
        elif R.chance(12):
            # a %{ %} block between two rules (copied to the output; a comment only, its
            # meaning as code is "not well-defined" according to the manual)
            S.add("%{")
            S.add("\t/* block between rules: %s */" % comment_text(S.pick("action_percent")[1]))
            S.add("%}")
            S.between = getattr(S, "between", 0) + 1
    S.add("[ \\t\\n]+\t;")
    S.lines.append("<<EOF>>\t{")
    S.add(S.stmt_tracer("eof_action"))
    S.add("\treturn 0;")
    S.add("\t}")
    S.add("%%")
    # ---- section 3
    a3 = S.lineno()
    S.add("static void vt_report(int id, int line, const char *file, const char *p, int n) {")
    S.add("\tint i; printf(\"T %d %d %s \", id, line, file);")
    S.add("\tfor (i = 0; i < n; ++i) printf(\"%02x\", (unsigned char) p[i]);")
    S.add("\tprintf(\"\\n\");")
    S.add("}")
    for _ in range(R.rint(1, 3)):
        S.decl_tracer("sect3")
        for _ in range(R.below(4)):
            S.add("")
    S.add("int main(void) {")
    S.add("\tconst struct vt *all[] = { %s };" % ", ".join(
        "&vt_%d" % t["id"] for t in S.tracers if t["static"]))
    S.add("\tunsigned k;")
    S.add("\tfor (k = 0; k < sizeof all / sizeof all[0]; ++k)")
    S.add("\t\tvt_report(all[k]->id, all[k]->line, all[k]->file, all[k]->payload, all[k]->len);")
    S.add(S.stmt_tracer("sect3_code"))
    if c99:
        S.add("\t{ yyscan_t vs; if (yylex_init(&vs)) return 9; while (yylex(vs) > 0) ; yylex_destroy(vs); }")
    else:
        S.add("\twhile (yylex() > 0) ;")
    S.add("\treturn 0;")
    S.add("}")
    S.spans.append(("sect3", a3, S.lineno() - 1))
    text = "\n".join(S.lines) + "\n"
    inp = " ".join(words) + "\n"
    return S, text, inp


def check_linedirs(outpath, outname, specname, noline):
    """'#line N "outfile"' must sit on physical line N-1."""
    probs = []
    n_out = n_in = 0
    with open(outpath, "rb") as f:
        lines = f.read().split(b"\n")
    for i, l in enumerate(lines, 1):
        m = re.match(rb'^#line (\d+) "(.*)"\s*$', l)
        if not m:
            continue
        if noline:
            probs.append("line %d: '#line' emitted although noline was requested: %r" % (i, l[:80]))
            continue
        n = int(m.group(1))
        body = m.group(2)
        if not re.fullmatch(rb'(?:[^"\\]|\\.)*', body):
            probs.append("line %d: the file name in %r is not a well-formed C string" % (i, l[:120]))
            continue
        fn = re.sub(rb'\\(.)', rb'\1', body).decode("latin1")
        if os.path.basename(fn) == os.path.basename(outname):
            n_out += 1
            if n != i + 1:
                probs.append("line %d: %r but the following line is physical line %d" % (i, l[:80], i + 1))
        elif os.path.basename(fn) == os.path.basename(specname):
            n_in += 1
        else:
            probs.append("line %d: #line names an unknown file %r" % (i, fn))
    return probs, n_out, n_in


def worker(args):
    chk, i = args
    rng = chk.rng("spec", i)
    noline = (i % 7 == 6)
    c99 = (i % 6 == 3)          # the same specification through the c99 skeleton
    S, text, inp = make_spec(rng, noline, c99)
    flex = chk.flex("san")
    d = os.path.join(chk.scratch.path, "c%d" % i)
    os.makedirs(d, exist_ok=True)
    # file names are text too: names that are m4 macros, flex macros, or contain odd bytes
    base = ["t", "t", "M4_YY_NOOP", "m4_dnl", "yyless m4_define", "t-$1`x'", "M4_MODE_PREFIX"][i % 7]
    if i % 9 == 4:
        base = 'my "quoted" le\\xer'      # (a directive is a C string: quote and backslash are escaped)
    spec = os.path.join(d, base + ".l")
    util.write(spec, text.encode("latin1"))
    out = os.path.join(d, ["t.c", "m4_divert.c", "M4_YY_NOOP.c"][i % 3] if i % 11 != 7 else 'o"u\\t.c')
    res = {"i": i, "problems": [], "feats": {}, "tracers": len(S.tracers), "spec": spec}

    def feat(k, n=1):
        res["feats"][k] = res["feats"].get(k, 0) + n
    if getattr(S, "split_strings", 0):
        res["feats"]["strings_continued_over_lines"] = S.split_strings
    usestdout = (i % 5 == 4)
    args_ = ["-L"] if (noline and i % 2 == 0) else []
    hdr = None
    if i % 4 == 1 and not usestdout:
        hdr = os.path.join(d, ["t.h", "m4_include.h"][i % 8 == 5])
        args_ = args_ + ["--header-file=" + hdr]
    if usestdout:
        with open(out, "wb") as f:
            r = util.run([flex.bin] + args_ + ["-t", spec], cwd=d, env=flex.env(tmpdir=d), timeout=60, stdout=f)
    else:
        cmd, r = runner.flex_generate(flex, spec, out, args_, cwd=d)
    err = r.err.decode("latin1")
    kinds = sorted(set(t["region"] + "/" + t["kind"] for t in S.tracers))
    if r.rc != 0:
        res["problems"].append(("generation", "flex refused a valid specification (exit %s): %s; "
                                "tracers: %s" % (r.rc, err[-400:], kinds), None))
        return res
    probs, n_out, n_in = check_linedirs(out, "<stdout>" if usestdout else out, spec, noline)
    for p in probs[:3]:
        res["problems"].append(("linedir", p, None))
    feat("linedirs_outfile", n_out)
    feat("linedirs_infile", n_in)
    if hdr is not None:
        if not os.path.exists(hdr):
            res["problems"].append(("header", "flex exit 0 but the header %s was not written" % hdr, None))
        else:
            hp, h_out, h_in = check_linedirs(hdr, hdr, spec, noline)
            for p_ in hp[:3]:
                res["problems"].append(("linedir", "header: " + p_, None))
            feat("header_linedirs_checked", h_out)
            feat("headers_checked")
    if noline:
        feat("noline_specs")
    feat("backend:c99" if c99 else "backend:default")
    feat("comment_lines_between_rules", getattr(S, "between", 0))
    gen_bytes = util.read(out, True)
    src_lines = text.encode("latin1").split(b"\n")
    for region, a, b_ in S.spans:
        blk = b"\n".join(src_lines[a - 1:b_]) + b"\n"
        if blk not in gen_bytes:
            res["problems"].append(("verbatim", "lines %d-%d of the specification (%s, %d bytes) do not "
                                    "appear unchanged in the generated file" % (a, b_, region, len(blk)), None))
        else:
            feat("verbatim_blocks")
            if b"\n\n\n" in blk:
                feat("verbatim_blocks_with_blank_runs")
    exe = os.path.join(d, "t.exe")
    c = util.run(["gcc", "-w", "-o", exe, out], cwd=d, env=util.clean_env(), timeout=120)
    if c.rc != 0:
        res["problems"].append(("compile", "scanner generated from valid user code does not compile: %s; "
                                "tracers: %s" % (c.err.decode("latin1")[-600:], kinds), None))
        return res
    x = util.run([exe], cwd=d, env=util.clean_env(), stdin=inp.encode(), timeout=30)
    if x.rc != 0:
        res["problems"].append(("run", "scanner exit %s: %s" % (x.rc, x.err.decode("latin1")[-300:]), None))
        return res
    seen = {}
    for l in x.out.decode("latin1").splitlines():
        p = l.split(" ")
        if p[0] == "T" and len(p) >= 5:
            seen[int(p[1])] = (int(p[2]), " ".join(p[3:-1]), p[-1])
    for t in S.tracers:
        feat("region:" + t["region"])
        feat("payload:" + t["kind"])
        g = seen.get(t["id"])
        if g is None:
            res["problems"].append(("missing", "tracer %d (%s, %s) never reported: code lost or not "
                                    "executed" % (t["id"], t["region"], t["kind"]), None))
            continue
        line, fn, hx = g
        if bytes.fromhex(hx) != t["payload"]:
            res["problems"].append(("payload", "tracer %d in %s: payload %r arrived as %r" % (
                t["id"], t["region"], t["payload"], bytes.fromhex(hx)), None))
        if not noline:
            if line != t["line"] or os.path.basename(fn) != os.path.basename(spec):
                res["problems"].append(("line", "tracer %d in %s (%s): written on line %d of %s, "
                                        "compiler saw %s:%d" % (t["id"], t["region"], t["kind"],
                                                                t["line"], os.path.basename(spec), fn, line),
                                        None))
        feat("tracers_checked")
    res["sample"] = {"regions": sorted(set(t["region"] for t in S.tracers)), "tracers": len(S.tracers),
                     "first_lines": text.split("\n")[:12]}
    return res


def run(pid, tier):
    chk = common.Check(pid, tier)
    chk.rule = RULE
    known.replay_known(chk)
    n = 64 if tier == "quick" else 2500
    for o in util.pmap(worker, [(chk, i) for i in range(n)]):
        chk.count(1)
        chk.feat(o["feats"])
        chk.nontriv("spec%d" % o["i"])
        if "sample" in o:
            chk.sample(o["sample"], limit=3)
        for kind, what, _ in o["problems"]:
            def save(dst, spec=o["spec"]):
                shutil.copy(spec, dst)
            sig = {"kind": kind}
            m = re.search(r"in (\w+)", what)
            chk.violation("spec %d: %s: %s" % (o["i"], kind, what), sig, save)
    for r in ("top", "sect1_block", "sect1_indented", "sect2_block", "sect2_indented", "action_oneline",
              "action_braced", "action_percent", "eof_action", "sect3", "sect3_code"):
        chk.require("region:" + r)
    for name, _ in PAYLOADS:
        chk.require("payload:" + name)
    chk.require("linedirs_outfile", 20)
    chk.require("noline_specs", 2)
    chk.require("backend:c99", 5)
    chk.require("headers_checked", 5)
    chk.require("comment_lines_between_rules", 10)
    chk.require("strings_continued_over_lines", 5)
    chk.require("verbatim_blocks", 50)
    chk.require("verbatim_blocks_with_blank_runs", 5)
    return chk


def replay(d):
    print("replay: re-run the check (cases are regenerated from the seed)")
    return 2
