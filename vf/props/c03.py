"""C03 -- delivery independence and interactive look-ahead; job maker in tokens.py."""
from .. import common
from . import lib, tokens

QUICK, THOROUGH = 60, 900
RULE = ("case = rule set + inputs with long tokens; each input is delivered under several "
        "(read-size schedule, buffer size) pairs incl. 1-byte reads into a 1-byte buffer, "
        "through YY_INPUT / user yyread / stdio fread / stdio getc / read(2); every run is "
        "co-simulated with the buffering-free model; interactive builds (-I) additionally log "
        "the bytes delivered at each token, which must not exceed the model's look-ahead need")
REQUIRED = {"lookahead_exact": 20, "kind:1": 1, "kind:2": 1, "kind:3": 1, "reject_scanner": 1,
            "yymore": 5}


def run(pid, tier):
    chk = common.Check(pid, tier)
    n = QUICK if tier == "quick" else THOROUGH
    chk.rule = RULE
    lib.explore(chk, range(n), tokens.c03_job)
    for k, m in REQUIRED.items():
        chk.require(k, m)
    return chk


def replay(d):
    return lib.replay(d)
