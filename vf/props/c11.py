"""C11 -- see DESIGN.md section 4 (C11); job maker in tokens.py."""
from .. import common
from . import lib, tokens


def run(pid, tier):
    chk = common.Check(pid, tier)
    n = QUICK if tier == "quick" else THOROUGH
    chk.rule = RULE
    lib.explore(chk, range(n), tokens.c11_job)
    for k, m in REQUIRED.items():
        chk.require(k, m)
    return chk


def replay(d):
    return lib.replay(d)


QUICK, THOROUGH = 100, 2000
RULE = ("case = random history of guarded create/switch/push/pop/delete/scan_bytes/"
        "scan_string/scan_buffer/flush operations from actions and between yylex calls over "
        "3-6 file sources and 8 strings, nesting beyond the initial stack allocation; yyrestart(file) "
        "while the scanner has no buffer (as the program's first call, and after deleting the "
        "current buffer); yypush_buffer_state() right after deleting the current buffer; "
        "operations are executed only when valid by rules shared with the model")
REQUIRED = {"switch": 20, "bpop": 5, "delete": 3, "scan_bytes": 3, "scan_string": 3,
            "scan_buffer_ok": 1, "scan_buffer_null": 1, "flush": 3, "bpush_depth_1": 1,
            "switch_back_midline": 1, "restart_without_buffer": 10,
            "push_without_current_buffer": 3}
