"""C04 -- see DESIGN.md section 4 (C04); job maker in tokens.py."""
from .. import common
from . import lib, tokens


def run(pid, tier):
    chk = common.Check(pid, tier)
    n = 120 if tier == "quick" else 1500
    chk.rule = RULE
    lib.explore(chk, range(n), tokens.c04_job)
    for k, m in REQUIRED.items():
        chk.require(k, m)
    return chk


def replay(d):
    return lib.replay(d)


RULE = ("case = random rule set mentioning or not mentioning NUL / high bytes, actions with "
        "yyless/yyunput/yyinput, one table representation x interactive/batch x flavour; "
        "inputs with NULs at read boundaries (1-byte and small reads), token starts/ends, "
        "before EOF; -Cfe/-CFe with the 8-bit default left to flex; C++ scanners also through the "
        "class's own LexerInput() on a std::istream (batch and interactive); evaluation = one "
        "run co-simulated with the model; non-trivial = every run")
REQUIRED = {"tables:-Cf": 1, "tables:-CF": 1, "tables:default": 1, "tables:-C": 1,
            "mode:True": 1, "mode:False": 1, "bits:7": 1, "default_rule": 1, "yyless": 1,
            "full_ecs_default_8bit": 1, "cxx_own_lexerinput:True": 1, "cxx_own_lexerinput:False": 1}
