"""C12 -- scanner instances are isolated from each other and safe to run in parallel."""
import os, re, shutil
from .. import common, util, gen, scripts, stream, runner, model, emit, known
from . import lib, tokens

RULE = ("program = k in {2,4,8,16} instances of one generated scanner (reentrant C, c99, C++ "
        "objects), each with its own input and event log; (a) one thread, yylex calls "
        "interleaved round-robin / in seeded random bursts, ASan+UBSan build; (b) one thread per "
        "instance with sched_yield() in the read path and between calls, ThreadSanitizer build, "
        "several seeds; every instance's log is co-simulated with the model of that instance "
        "alone; any TSan report is a violation; the maximum number of threads observed inside "
        "yylex at once is recorded; (c) 2-3 scanners generated with different prefixes are "
        "compiled separately, linked into one program and run, and nm checks that no external "
        "symbol is defined twice and every one carries its prefix")


def make_case(chk, rng, i):
    p = gen.default_profile()
    p["nrules"] = (2, 8)
    p["depth"] = 2
    p["trail"] = 15
    p["bol"] = 15
    p["scs"] = rng.choice([0, 1, 2])
    g, case = tokens.base_case(chk, rng, p)
    mode = i % 3
    if mode == 0:
        f = {"ret": 30, "begin": 30, "more": 20}
    elif mode == 1:
        f = {"ret": 25, "reject": 35}
    else:
        f = {"ret": 30, "push": 30, "pop": 10, "top": 20, "pop_pct": 10}   # (no yyless: yyless(0) loops, and the event budget is off here)
        for r in case["rules"]:
            r["bol"] = False
    scripts.decorate(case, rng, f)
    # no fatal endings in a shared process: pops could underflow -> drop them
    for r in case["rules"]:
        if r["act"] != "|":
            r["act"] = [op for op in r["act"] if not (op[0] == "if" and op[4][0][0] == "pop")]
    case["opts"]["yylineno"] = (i % 2 == 0)
    case["driver"] = {"multi": True}
    case["budget"] = {"events": 1500}
    return g, case


def worker(args):
    chk, i, tier = args
    rng = chk.rng("prog", i)
    g, case = make_case(chk, rng, i)
    fl = ["r", "c99", "cxx"][i % 3]
    threads = (i % 2 == 1)
    k = [2, 4, 8, 16][(i // 2) % 4]
    out = {"i": i, "runs": 0, "problems": [], "feats": {}, "instances": 0}

    def feat(x, n=1):
        out["feats"][x] = out["feats"].get(x, 0) + n
    flex = chk.flex("san")
    wd = os.path.join(chk.scratch.path, "p%d" % i)
    c2 = dict(case)
    c2["opts"] = dict(case["opts"])
    c2["opts"]["flavour"] = fl
    if fl == "c99":
        c2["opts"]["extra_options"] = ['extra-type="void *"']     # yylex_init_extra/yyget_extra exist
    tables = (fl == "r" and (i // 3) % 2 == 1)
    if tables:
        # tables loaded from a file are one object for all instances of the scanner
        c2["opts"]["tables_file"] = "s.tbl"
    b = runner.build_scanner(flex, c2, fl, wd, (), "tsan" if threads else "san",
                             util.Rng(case["seed"], "emit"))
    if not b.ok:
        if b.stage == "flex" and b.flex.timed_out:
            out["skipped"] = "flex watchdog"
            return out
        out["problems"].append(("build:" + b.stage, b.describe(), b, None))
        return out
    if "dangerous trailing context" in b.warnings:
        out["skipped"] = "dangerous"
        return out
    ctx = gen.ctx_of(case)
    rs = model.RuleSet(c2)
    # the model of a single instance: plain driver (open source 0, call yylex until 0)
    single = dict(c2)
    single["driver"] = {}
    nsched = 5 if tier != "quick" else 2
    for sidx in range(nsched):
        insts = []
        argv = []
        for j in range(k):
            src = b"".join(g.make_input(case, ctx, maxlen=300) for _ in range(3 if threads else 1))
            cj = dict(single)
            cj["sources"] = [src]
            pk = os.path.join(wd, "s%d_%d.pack" % (sidx, j))
            lg = os.path.join(wd, "s%d_%d.log" % (sidx, j))
            util.write(pk, emit.pack(cj, [rng.choice([0, 1, 3, 7])]))
            insts.append((cj, lg))
            argv += [pk, lg]
        mode = "t" if threads else rng.choice(["i", "r"])
        env = util.clean_env(runner.SAN_ENV)
        if tables:
            env["VF_TABLES"] = os.path.join(wd, "s.tbl")
            feat("shared_serialized_tables")
        res = util.run([b.exe, mode, str(rng.below(1 << 30)), str(k)] + argv, cwd=wd, env=env,
                       timeout=120, cpu_s=60)
        out["runs"] += 1
        out["instances"] += k
        err = res.err.decode("latin1")
        feat("mode:" + mode)
        feat("k:%d" % k)
        feat("flavour:" + fl)
        if "ThreadSanitizer" in err:
            # de-duplicate reports by their first two frames
            reps = re.findall(r"WARNING: ThreadSanitizer: ([^\n]+)\n(?:.*\n)*?\s+#0 ([^\n]+)", err)
            out["problems"].append(("tsan", "ThreadSanitizer: %s\n%s" % (sorted(set(reps))[:4], err[:3000]),
                                    b, None))
            break
        kind, detail = runner.classify(res, "")
        if kind not in ("ok",):
            out["problems"].append(("run:" + kind, detail[:2000], b, None))
            break
        for j, (cj, lg) in enumerate(insts):
            log = util.read(lg) if os.path.exists(lg) else ""
            m = re.search(r"# max_concurrent (\d+)", log)
            if m:
                mc = int(m.group(1))
                out["feats"]["max_concurrent"] = max(out["feats"].get("max_concurrent", 0), mc)
                if threads and mc >= 2:
                    feat("overlap_observed")
            ok, info = model.check(cj, log, rs)
            if not ok:
                out["problems"].append(("isolation", "instance %d of %d (%s, mode %s) differs from its solo "
                                        "stream: %s" % (j, k, fl, mode, stream.fmt_div(info)), b, None))
                break
            feat("instances_checked")
            for kk, v in info["features"].items():
                if kk in ("reject", "yymore", "yyless", "stack_depth_0", "trail_fire"):
                    feat(kk, v)
        if out["problems"]:
            break
    if not out["problems"]:
        shutil.rmtree(wd, ignore_errors=True)
    out["sample"] = {"program": i, "flavour": fl, "instances": k, "threads": threads}
    return out


PREFIX_SPEC = """%%option noyywrap prefix="%(p)s" %(extra)s
%%%%
%(rules)s
%%%%
int %(p)s_run(const char *s) {
    int n = 0;
%(body)s
    return n;
}
"""


def prefix_link(chk, i):
    """Different prefixes in one program."""
    rng = chk.rng("prefix", i)
    flex = chk.flex("san")
    d = chk.scratch.sub("link%d" % i)
    # (prefixes that merely begin with "yy", one-letter ones, mixed case)
    prefixes = [["aa", "bb", "Cc_"], ["yya_", "yyb", "zz"], ["y", "yy2", "Y_y"],
                ["yylex", "yy_", "x1"]][i % 4][:rng.choice([2, 3])]
    reent = (i % 2 == 1)
    objs = []
    expect = []
    decls = []
    calls = []
    for n, p in enumerate(prefixes):
        word = ["foo", "bar", "baz"][n]
        rules = '%s   { return %d; }\n.|\\n  { return 1; }' % (word, 10 + n)
        tables = ((i // 2) % 2 == 1)       # each scanner with its own serialized tables
        if reent:
            load = ('{ FILE *f = fopen("%s.tbl", "rb"); if (!f || %stables_fload(f, sc)) return -1; fclose(f); } '
                    % (p, p)) if tables else ""
            unload = ("%stables_destroy(sc); " % p) if tables else ""
            body = ("    yyscan_t sc; %slex_init(&sc); %s%s_scan_string(s, sc); while (%slex(sc) > 0) n++; "
                    "%s%slex_destroy(sc);" % (p, load, p, p, unload, p))
            extra = "reentrant"
        else:
            load = ('{ FILE *f = fopen("%s.tbl", "rb"); if (!f || %stables_fload(f)) return -1; fclose(f); } '
                    % (p, p)) if tables else ""
            unload = ("%stables_destroy(); " % p) if tables else ""
            body = ("    %s%s_scan_string(s); while (%slex() > 0) n++; %s%slex_destroy();" % (load, p, p, unload, p))
            extra = ""
        if tables:
            extra += ' tables-file="%s.tbl"' % p
        sp = os.path.join(d, p + ".l")
        util.write(sp, PREFIX_SPEC % {"p": p, "extra": extra, "rules": rules, "body": body})
        out = os.path.join(d, p + ".c")
        cmd, r = runner.flex_generate(flex, sp, out, ["-Cf"] if n == 1 else [], cwd=d)
        if r.rc != 0:
            return [("prefix-build", "flex failed for prefix %s: %s" % (p, r.err[-400:]))], 0
        o = os.path.join(d, p + ".o")
        c = util.run(["gcc", "-w", "-g", "-fsanitize=address,undefined"] + runner.scov.cflags() + ["-c", out, "-o", o], cwd=d,
                     env=util.clean_env(), timeout=120)
        if c.rc != 0:
            return [("prefix-build", "scanner with prefix %s does not compile: %s" % (
                p, c.err.decode("latin1")[-500:]))], 0
        objs.append(o)
        decls.append("int %s_run(const char *s);" % p)
        calls.append('printf("%%d\\n", %s_run("%s x %s"));' % (p, word, word))
        expect.append("5")          # word, ' ', 'x', ' ', word
    util.write(os.path.join(d, "main.c"), "#include <stdio.h>\n%s\nint main(void) { %s return 0; }\n" % (
        "\n".join(decls), " ".join(calls)))
    probs = []
    exe = os.path.join(d, "prog")
    l = util.run(["gcc", "-g", "-fsanitize=address,undefined"] + runner.scov.cflags() + ["-o", exe, os.path.join(d, "main.c")] + objs,
                 cwd=d, env=util.clean_env(), timeout=120)
    if l.rc != 0:
        probs.append(("prefix-link", "scanners with prefixes %s do not link: %s" % (
            prefixes, l.err.decode("latin1")[-700:])))
        return probs, 1
    x = util.run([exe], cwd=d, env=util.clean_env(runner.SAN_ENV), timeout=30)
    if x.rc != 0 or x.out.decode().split() != expect:
        probs.append(("prefix-run", "multi-prefix program: exit %s output %r expected %r %s" % (
            x.rc, x.out, expect, x.err.decode("latin1")[-500:])))
    seen = {}
    for o, p in zip(objs, prefixes):
        r = util.run(["nm", "-g", "--defined-only", o], env=util.clean_env(), timeout=30)
        for line in r.out.decode().splitlines():
            parts = line.split()
            if len(parts) < 3:
                continue
            name = parts[-1]
            if name in seen:
                probs.append(("prefix-clash", "external symbol %s defined by both %s and %s" % (
                    name, seen[name], p)))
            seen[name] = p
            if not name.startswith(p) and not name.startswith("__"):
                probs.append(("prefix-missing", "scanner with prefix %s defines external symbol %s without "
                              "the prefix" % (p, name)))
    return probs, 1


def run(pid, tier):
    chk = common.Check(pid, tier)
    chk.rule = RULE
    known.replay_known(chk)
    n = 24 if tier == "quick" else 300
    mc = 0
    for o in util.pmap(worker, [(chk, i, tier) for i in range(n)], jobs=8):
        if o.get("skipped"):
            chk.feat1("skipped:" + o["skipped"])
            continue
        chk.count(o["runs"])
        mc = max(mc, o["feats"].pop("max_concurrent", 0))
        chk.feat(o["feats"])
        for j in range(o["instances"]):
            chk.nontriv("p%d/%d" % (o["i"], j))
        chk.sample(o.get("sample"), limit=4)
        for kind, what, b, ro in o["problems"]:
            def save(d, b=b):
                runner.save_replay(d, b, {}, None, {"problem": kind})
            chk.violation("program %d: %s: %s" % (o["i"], kind, what), {"kind": kind.split(":")[0]}, save)
    chk.extra["max_threads_inside_yylex_at_once"] = mc
    for i in range(4 if tier == "quick" else 40):
        probs, ev = prefix_link(chk, i)
        chk.count(ev)
        chk.nontriv("link%d" % i)
        if not probs:
            chk.feat1("prefix_link_ok")
        for kind, what in probs:
            chk.violation("multi-prefix program %d: %s" % (i, what), {"kind": kind})
    for k in ("mode:t", "mode:i", "mode:r", "flavour:r", "flavour:c99", "flavour:cxx", "k:2", "k:16",
              "overlap_observed", "prefix_link_ok", "shared_serialized_tables"):
        chk.require(k)
    chk.require("instances_checked", 50)
    return chk


def replay(d):
    print("replay: re-run the check (programs are regenerated from the seed)")
    return 2
