"""Shared engine of the event-stream checks: build one case under several configurations,
run it on several inputs/deliveries, co-simulate every log with the reference model."""
import os, copy, shutil
from . import util, runner, model, emit


def cfg_tag(cfg):
    return "%s%s_%s%s" % (cfg["flavour"], "".join(cfg.get("flexargs", ())).replace("-", "")
                          .replace("=", ""), cfg.get("cc", "san"), cfg.get("tagx", ""))


def with_input(case, inp):
    c = dict(case)
    c["sources"] = inp["sources"]
    if "strings" in inp:
        c["strings"] = inp["strings"]
    if "cmp_deliv" in inp:
        c["cmp_deliv"] = inp["cmp_deliv"]
    if inp.get("bufsize"):
        c["bufsize"] = inp["bufsize"]
    return c


class CaseResult:
    def __init__(self):
        self.problems = []      # list of dict(kind, what, cfg, inp, built, runout, info)
        self.features = {}
        self.runs = 0
        self.events = 0
        self.builds = 0
        self.logs = {}          # (cfg_tag, input index) -> log text
        self.flex_warnings = {}
        self.inconclusive = []

    def feat(self, d):
        for k, v in d.items():
            self.features[k] = self.features.get(k, 0) + v


def run_case(flex, case, configs, inputs, workdir, rng=None, expect_build=None,
             stop_on_first=True, keep_logs=False, cpu_s=20, skip_if=None):
    """Returns CaseResult.  `expect_build(cfg, built)` may claim a flex failure as an
    expected refusal (return True) -- otherwise every flex/cc failure is a problem."""
    res = CaseResult()
    rs_cache = {}
    for cfg in configs:
        tag = cfg_tag(cfg)
        d = os.path.join(workdir, tag)
        c2 = dict(case)
        c2["opts"] = dict(case["opts"])
        c2["opts"]["flavour"] = cfg["flavour"]
        for k, v in cfg.get("opts", {}).items():
            c2["opts"][k] = v
        for k in ("driver", "wrap"):
            # a configuration may deliver the same input another way (e.g. from memory)
            if k in cfg:
                c2[k] = cfg[k]
        erng = util.Rng(case["seed"], "emit") if rng is None else rng
        built = runner.build_scanner(flex, c2, cfg["flavour"], d, cfg.get("flexargs", ()),
                                     cfg.get("cc", "san"), erng)
        res.builds += 1
        res.flex_warnings[tag] = built.warnings
        if not built.ok:
            if expect_build and expect_build(cfg, built):
                continue
            if built.stage == "flex" and built.flex.timed_out:
                # state explosion on a generated rule set: not a verdict (C16 owns
                # termination, with its own progress bound)
                res.inconclusive.append("flex watchdog on %s" % tag)
                continue
            res.problems.append({"kind": "build:" + built.stage, "what": built.describe(),
                                 "cfg": cfg, "built": built, "case": c2})
            if stop_on_first:
                return res
            continue
        if skip_if is not None:
            why = skip_if(cfg, built)
            if why:
                res.features["skipped:" + why] = res.features.get("skipped:" + why, 0) + 1
                shutil.rmtree(d, ignore_errors=True)
                continue
        if "AddressSanitizer" in built.warnings or "runtime error:" in built.warnings:
            res.problems.append({"kind": "flex-sanitizer", "what": built.warnings[-3000:],
                                 "cfg": cfg, "built": built, "case": c2})
            if stop_on_first:
                return res
        # model rule set depends on options that change meaning only
        rskey = (c2["opts"].get("bits"), c2["opts"].get("ci"), c2["opts"].get("posix"),
                 c2["opts"].get("nodefault"))
        for ii, inp in enumerate(inputs):
            if cfg.get("input_filter") and not cfg["input_filter"](inp):
                continue
            if cfg.get("input_flags"):
                inp = dict(inp)
                inp["flags"] = inp.get("flags", 0) | cfg["input_flags"]
            ci = with_input(c2, inp)
            if cfg.get("deliv"):
                ci["cmp_deliv"] = True
            rs = rs_cache.get(rskey)
            if rs is None:
                rs = rs_cache[rskey] = model.RuleSet(ci)
            ro = runner.run_scanner(built, ci, d, tag="i%d" % ii, sched=inp.get("sched"),
                                    flags=inp.get("flags", 0), cpu_s=cpu_s,
                                    alloc_fail_at=inp.get("alloc_fail_at", 0),
                                    read_faults=inp.get("read_faults", ()),
                                    bufsize=inp.get("bufsize", 0))
            res.runs += 1
            if keep_logs:
                res.logs[(tag, ii)] = ro.log
            if ro.kind in ("sanitizer", "signal", "exit", "harness", "timeout"):
                if ro.kind == "timeout":
                    ro2 = runner.run_scanner(built, ci, d, tag="i%d" % ii,
                                             sched=inp.get("sched"), flags=inp.get("flags", 0),
                                             cpu_s=cpu_s, bufsize=inp.get("bufsize", 0))
                    if ro2.kind != "timeout":
                        ro = ro2
                if ro.kind in ("sanitizer", "signal", "exit", "harness", "timeout"):
                    res.problems.append({"kind": "run:" + ro.kind, "what": ro.detail,
                                         "cfg": cfg, "inp": inp, "built": built,
                                         "runout": ro, "case": ci})
                    if stop_on_first:
                        return res
                    continue
            ok, info = model.check(ci, ro.log, rs)
            res.events += len(ro.log.splitlines())
            if ok:
                res.feat(info["features"])
            else:
                res.problems.append({"kind": "diverge", "what": fmt_div(info), "cfg": cfg,
                                     "inp": inp, "built": built, "runout": ro, "case": ci,
                                     "info": info})
                if stop_on_first:
                    return res
        if not keep_logs:
            shutil.rmtree(d, ignore_errors=True)
    return res


def fmt_div(info):
    return "event %s: expected %s observed %s %s | context %s" % (
        info.get("index"), info.get("expected"), info.get("observed"), info.get("why", ""),
        info.get("context"))


def save_problem(p):
    def f(d):
        runner.save_replay(d, p.get("built"), p.get("case"), p.get("runout"),
                           {"problem": p["kind"], "what": p["what"][:8000],
                            "cfg": {k: v for k, v in (p.get("cfg") or {}).items()
                                    if not callable(v)},
                            "sched": (p.get("inp") or {}).get("sched"),
                            "bufsize": (p.get("inp") or {}).get("bufsize", 0),
                            "flags": (p.get("inp") or {}).get("flags", 0),
                            "divergence": p.get("info")})
    return f
