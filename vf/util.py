"""Shared helpers: deterministic PRNG, process running with group kill, parallel map."""
import os, sys, signal, subprocess, time, hashlib, json, shutil, tempfile, resource
from concurrent.futures import ThreadPoolExecutor

M64 = (1 << 64) - 1
M32 = (1 << 32) - 1

VERIF = os.path.dirname(os.path.dirname(os.path.abspath(__file__)))
REPO = os.environ.get("VERIF_REPO", "/repo")
NCPU = int(os.environ.get("VERIF_JOBS", "0")) or min(16, os.cpu_count() or 4)


def splitmix64(x):
    x = (x + 0x9E3779B97F4A7C15) & M64
    z = x
    z = ((z ^ (z >> 30)) * 0xBF58476D1CE4E5B9) & M64
    z = ((z ^ (z >> 27)) * 0x94D049BB133111EB) & M64
    return x, z ^ (z >> 31)


def mix32(a, b, c):
    """32-bit mixing function shared with the C harness (vf_rt.h: vf_mix32)."""
    h = (a * 0x9E3779B1) & M32
    h ^= (b + 0x7F4A7C15 + ((h << 6) & M32) + (h >> 2)) & M32
    h = (h * 0x85EBCA6B) & M32
    h ^= h >> 13
    h ^= (c + 0x165667B1 + ((h << 6) & M32) + (h >> 2)) & M32
    h = (h * 0xC2B2AE35) & M32
    h ^= h >> 16
    return h & M32


class Rng:
    """splitmix64 stream; child streams are derived by name so that case i of a
    check depends only on (seed, check, i)."""

    def __init__(self, *key):
        h = hashlib.sha256(repr(key).encode()).digest()
        self.s = int.from_bytes(h[:8], "little")

    def u64(self):
        self.s, z = splitmix64(self.s)
        return z

    def below(self, n):
        if n <= 0:
            return 0
        return self.u64() % n

    def rint(self, lo, hi):
        return lo + self.below(hi - lo + 1)

    def chance(self, num, den=100):
        return self.below(den) < num

    def choice(self, seq):
        return seq[self.below(len(seq))]

    def wchoice(self, pairs):
        tot = sum(w for _, w in pairs)
        r = self.below(tot)
        for v, w in pairs:
            if r < w:
                return v
            r -= w
        return pairs[-1][0]

    def shuffle(self, lst):
        for i in range(len(lst) - 1, 0, -1):
            j = self.below(i + 1)
            lst[i], lst[j] = lst[j], lst[i]
        return lst

    def sample(self, seq, k):
        l = list(seq)
        self.shuffle(l)
        return l[:k]

    def bytes(self, n, alphabet=None):
        if alphabet is None:
            return bytes(self.below(256) for _ in range(n))
        return bytes(alphabet[self.below(len(alphabet))] for _ in range(n))


def seed_from_env():
    try:
        return int(os.environ.get("VERIF_SEED", "1"))
    except ValueError:
        return 1


class Result:
    __slots__ = ("rc", "out", "err", "timed_out", "cpu", "wall", "sig")

    def __init__(self, rc, out, err, timed_out, cpu, wall):
        self.rc = rc
        self.out = out
        self.err = err
        self.timed_out = timed_out
        self.cpu = cpu
        self.wall = wall
        self.sig = -rc if rc is not None and rc < 0 else 0

    def __repr__(self):
        return "Result(rc=%r timed_out=%r wall=%.2f err=%r)" % (
            self.rc, self.timed_out, self.wall, self.err[-300:])


def _limits(cmd, cpu_s, as_bytes):
    """Resource limits through prlimit(1) (no preexec_fn: we spawn from threads)."""
    pre = ["prlimit", "--core=0"]
    if cpu_s:
        pre.append("--cpu=%d:%d" % (cpu_s, cpu_s + 5))
    if as_bytes:
        pre.append("--as=%d" % as_bytes)
    return pre + ["--"] + list(cmd)


def run(cmd, cwd=None, env=None, stdin=None, timeout=60, cpu_s=None, as_bytes=None,
        stdout=subprocess.PIPE, stderr=subprocess.PIPE):
    """Run cmd in its own session; on timeout kill the whole process group."""
    t0 = time.time()
    if isinstance(stdin, (bytes, bytearray)):
        inp, sin = bytes(stdin), subprocess.PIPE
    else:
        inp, sin = None, (stdin if stdin is not None else subprocess.DEVNULL)
    if cpu_s or as_bytes:
        cmd = _limits(cmd, cpu_s, as_bytes)
    p = subprocess.Popen(cmd, cwd=cwd, env=env, stdin=sin, stdout=stdout, stderr=stderr,
                         start_new_session=True)
    timed_out = False
    try:
        out, err = p.communicate(inp, timeout=timeout)
    except subprocess.TimeoutExpired:
        timed_out = True
        try:
            os.killpg(p.pid, signal.SIGKILL)
        except ProcessLookupError:
            pass
        out, err = p.communicate()
    # make sure no stragglers of the group survive (flex forks a filter chain)
    try:
        os.killpg(p.pid, signal.SIGKILL)
    except (ProcessLookupError, PermissionError):
        pass
    return Result(p.returncode, out or b"", err or b"", timed_out, 0.0, time.time() - t0)


def pmap(fn, items, jobs=None):
    items = list(items)
    if not items:
        return []
    jobs = jobs or NCPU
    if jobs <= 1 or len(items) == 1:
        return [fn(x) for x in items]
    with ThreadPoolExecutor(max_workers=jobs) as ex:
        return list(ex.map(fn, items))


def scratch_root():
    return os.environ.get("VERIF_SCRATCH", "/var/tmp")


class Scratch:
    """Private scratch dir removed on exit."""

    def __init__(self, tag="vf"):
        self.path = tempfile.mkdtemp(prefix="vf-%s-" % tag, dir=scratch_root())
        import atexit
        atexit.register(self.cleanup)

    def sub(self, name):
        p = os.path.join(self.path, name)
        os.makedirs(p, exist_ok=True)
        return p

    def cleanup(self):
        shutil.rmtree(self.path, ignore_errors=True)

    def __enter__(self):
        return self

    def __exit__(self, *a):
        self.cleanup()


def clean_env(extra=None, tmpdir=None):
    env = {"PATH": "/usr/local/bin:/usr/bin:/bin", "LC_ALL": "C", "LANG": "C", "HOME": "/root"}
    if tmpdir:
        env["TMPDIR"] = tmpdir
    if extra:
        env.update(extra)
    return env


def hexs(b):
    return bytes(b).hex()


def jdump(obj, path):
    tmp = path + ".tmp"
    with open(tmp, "w") as f:
        json.dump(obj, f, indent=1, sort_keys=True)
        f.write("\n")
    os.replace(tmp, path)


def write(path, data):
    mode = "wb" if isinstance(data, (bytes, bytearray)) else "w"
    with open(path, mode) as f:
        f.write(data)


def read(path, binary=False):
    with open(path, "rb" if binary else "r") as f:
        return f.read()
