"""Measurement only: which lines of the generated scanners' run-time code (the skeleton, as
instantiated) the workloads of the checks execute.

Switched on by VERIF_SCANNER_COV=<dir>: scanners are then compiled with --coverage, and
every directory the checks delete is searched for .gcda files first; what gcov says about
the scanner source goes to <dir>/<pid>.json, keyed by (back end group, function, text of the
line).  tools/scanner_coverage.sh merges those files.  Nothing here takes part in a verdict.
"""
import os, json, re, shutil, subprocess, threading, atexit

DIR = os.environ.get("VERIF_SCANNER_COV")
_agg = {}            # group -> function -> text -> count
_real_rmtree = shutil.rmtree
_seen = 0
_lock = threading.Lock()


def enabled():
    return bool(DIR)


def cflags():
    return ["--coverage", "-DVF_GCOV"] if DIR else []


def _group(path, text):
    if path.endswith(".cc") or path.endswith(".cpp"):
        return "cxx"
    if "yybuffer" in text and "yyguts_t" in text and "YY_BUFFER_STATE" not in text:
        return "c99"
    if "yyscan_t yyscanner" in text:
        return "r"
    return "nr"


def _norm(s):
    return re.sub(r"\s+", " ", s.strip())


def harvest(top):
    global _seen
    if not DIR or not os.path.isdir(top):
        return
    for root, _, files in os.walk(top):
        for f in files:
            if not f.endswith(".gcda"):
                continue
            try:
                r = subprocess.run(["gcov", "-j", "-t", f], cwd=root, capture_output=True, timeout=60)
                d = json.loads(r.stdout.decode("latin1"))
            except Exception:
                continue
            for fe in d.get("files", []):
                name = fe["file"]
                if not (name.endswith(".c") or name.endswith(".cc")):
                    continue
                p = name if os.path.isabs(name) else os.path.join(root, name)
                try:
                    src = open(p, encoding="latin1").read()
                except OSError:
                    continue
                lines = src.split("\n")
                # scanners built with %option prefix: file the functions under their yy names
                mp = re.search(r"#define yy_create_buffer (\w+?)_create_buffer", src)
                pref = mp.group(1) if mp and mp.group(1) != "yy" else None
                with _lock:
                    g = _agg.setdefault(_group(p, src), {})
                    for le in fe["lines"]:
                        fn = le.get("function_name") or "?"
                        if pref and fn.startswith(pref):
                            fn = "yy" + fn[len(pref):]
                        ln = le["line_number"]
                        if not (1 <= ln <= len(lines)):
                            continue
                        t = _norm(lines[ln - 1])
                        if not t:
                            continue
                        ft = g.setdefault(fn, {})
                        ft[t] = ft.get(t, 0) + (1 if le["count"] > 0 else 0)
            with _lock:
                _seen += 1
            try:
                os.unlink(os.path.join(root, f))
            except OSError:
                pass


def flush():
    with _lock:
        if not _seen:
            return
        os.makedirs(DIR, exist_ok=True)
        tmp = os.path.join(DIR, "%d.json.tmp" % os.getpid())
        with open(tmp, "w") as fh:
            json.dump({"scanners": _seen, "agg": _agg}, fh)
        os.replace(tmp, os.path.join(DIR, "%d.json" % os.getpid()))


def _rmtree(path, *a, **kw):
    try:
        harvest(path)
    except Exception:
        pass
    return _real_rmtree(path, *a, **kw)


def install():
    if DIR and shutil.rmtree is not _rmtree:
        shutil.rmtree = _rmtree
        atexit.register(flush)


def merge(outpath):
    tot = {}
    n = 0
    for f in os.listdir(DIR):
        if not f.endswith(".json"):
            continue
        d = json.load(open(os.path.join(DIR, f)))
        n += d["scanners"]
        for g, fns in d["agg"].items():
            tg = tot.setdefault(g, {})
            for fn, ts in fns.items():
                tf = tg.setdefault(fn, {})
                for t, c in ts.items():
                    tf[t] = tf.get(t, 0) + c
    out = {"what": "gcov of the generated scanners themselves (skeleton code as instantiated), merged over "
                   "every scanner the checks built and ran; a line is identified by back end group, function "
                   "and its text, 'never' lists the lines no run executed",
           "scanners_measured": n, "groups": {}}
    for g, fns in sorted(tot.items()):
        og = out["groups"][g] = {"functions": {}}
        L = E = 0
        for fn, ts in sorted(fns.items()):
            never = sorted(t for t, c in ts.items() if c == 0)
            L += len(ts)
            E += len(ts) - len(never)
            og["functions"][fn] = {"lines": len(ts), "executed": len(ts) - len(never), "never": never}
        og["lines"] = L
        og["executed"] = E
        og["pct"] = round(100.0 * E / max(L, 1), 1)
    json.dump(out, open(outpath, "w"), indent=1)
    return out
