"""Independent parser of flex's serialized-tables file format (manual, 'Tables File
Format').  Returns the list of table sets or raises FormatError."""
import struct

MAGIC = 0xF13C57B1
IDS = {1: "accept", 2: "base", 3: "chk", 4: "def", 5: "ec", 6: "meta", 7: "nul_trans", 8: "nxt",
       9: "rule_can_match_eol", 10: "start_state_list", 11: "transition", 12: "acclist"}
D8, D16, D32, PTRANS, STRUCT = 1, 2, 4, 8, 16


class FormatError(Exception):
    pass


def parse(data):
    sets = []
    off = 0
    n = len(data)
    while off < n:
        if n - off < 14:
            raise FormatError("trailing %d bytes are not a table set" % (n - off))
        magic, hsize, ssize, flags = struct.unpack(">IIIH", data[off:off + 14])
        if magic != MAGIC:
            raise FormatError("offset %d: magic %#x" % (off, magic))
        if hsize % 8:
            raise FormatError("header size %d not padded to 64 bits" % hsize)
        if ssize % 8:
            raise FormatError("set size %d not padded to 64 bits" % ssize)
        if off + ssize > n or hsize > ssize or hsize < 16:
            raise FormatError("sizes out of range: hsize %d ssize %d file %d" % (hsize, ssize, n - off))
        hdr = data[off + 14:off + hsize]
        z1 = hdr.find(b"\0")
        if z1 < 0:
            raise FormatError("version not NUL terminated")
        version = hdr[:z1]
        z2 = hdr.find(b"\0", z1 + 1)
        if z2 < 0:
            raise FormatError("name not NUL terminated")
        name = hdr[z1 + 1:z2]
        pad = hdr[z2 + 1:]
        if any(pad):
            raise FormatError("header padding not zero")
        if len(pad) > 7:
            raise FormatError("header padded by %d bytes" % len(pad))
        tables = []
        p = off + hsize
        end = off + ssize
        while p < end:
            if end - p < 12:
                raise FormatError("table header truncated at %d" % p)
            tid, tfl, hi, lo = struct.unpack(">HHII", data[p:p + 12])
            if tid not in IDS:
                raise FormatError("unknown table id %d at %d" % (tid, p))
            w = {D8: 1, D16: 2, D32: 4}.get(tfl & 7)
            if w is None:
                raise FormatError("table %s: width flags %#x" % (IDS[tid], tfl))
            if tfl & ~(7 | PTRANS | STRUCT):
                raise FormatError("table %s: unknown flag bits %#x" % (IDS[tid], tfl))
            count = (hi * lo) if hi else lo
            if tfl & STRUCT:
                count *= 2
            nbytes = count * w
            total = 12 + nbytes
            padded = (total + 7) & ~7
            if p + padded > end:
                raise FormatError("table %s overruns its set (%d bytes at %d, set ends %d)" % (
                    IDS[tid], padded, p, end))
            raw = data[p + 12:p + 12 + nbytes]
            if any(data[p + total:p + padded]):
                raise FormatError("table %s: padding not zero" % IDS[tid])
            fmt = ">%d%s" % (count, {1: "b", 2: "h", 4: "i"}[w])
            vals = struct.unpack(fmt, raw)
            tables.append({"id": tid, "name": IDS[tid], "flags": tfl, "width": w, "hilen": hi,
                           "lolen": lo, "values": vals, "offset": p, "data_offset": p + 12})
            p += padded
        if p != end:
            raise FormatError("tables end at %d, th_ssize says %d" % (p, end))
        sets.append({"version": version, "name": name, "hsize": hsize, "ssize": ssize, "flags": flags,
                     "tables": tables, "offset": off})
        off = end
    return sets
