"""Reduce and display a replay directory:  python3 -m vf.triage DIR [budget]"""
import sys, os, json
from . import util, build, runner, stream, reduce, emit


def load(d):
    case = runner.case_from_json(json.load(open(os.path.join(d, "case.json"))))
    info = json.load(open(os.path.join(d, "info.json")))
    cfg = info["cfg"]
    cfg["flexargs"] = tuple(cfg.get("flexargs", ()))
    inp = {"sources": case["sources"], "sched": info.get("sched") or [0],
           "bufsize": info.get("bufsize", 0), "flags": info.get("flags", 0)}
    if "strings" in case:
        inp["strings"] = case["strings"]
    if case.get("cmp_deliv"):
        inp["cmp_deliv"] = True
        inp["flags"] = 1
    return case, cfg, inp, info


def main():
    d = sys.argv[1]
    budget = int(sys.argv[2]) if len(sys.argv) > 2 else 150
    case, cfg, inp, info = load(d)
    flex = build.get_flex("san")
    with util.Scratch("triage") as sc:
        c2, i2, p = reduce.reduce(flex, case, cfg, inp, info["problem"], os.path.join(sc.path, "w"),
                                  budget)
        if p is None:
            print("does not reproduce")
            return 1
        p = reduce._fails(flex, c2, cfg, i2, os.path.join(sc.path, "w"), info["problem"]) or p
        e = emit.Emitter(c2, cfg["flavour"])
        print("cfg:", cfg)
        print("opts:", c2["opts"])
        print("scs:", c2["scs"])
        for n, dnode in c2.get("defs", []):
            print("def %s  %s" % (n, e.def_text(dnode)))
        for i, r in enumerate(c2["rules"]):
            print("rule %d: %s    %s" % (i + 1, e.rule_text(r), r["act"]))
            print("      ", r["pat"])
        print("input:", i2["sources"])
        print("problem:", p["kind"], p["what"][:3000])
        if p.get("built") and p["built"].spec and os.path.exists(p["built"].spec):
            import shutil
            shutil.copy(p["built"].spec, "/tmp/reduced.l")
            print("reduced spec copied to /tmp/reduced.l")
        if p.get("runout"):
            print("log:\n" + p["runout"].log[:1500])
    return 0


if __name__ == "__main__":
    sys.exit(main())
