"""flex -> cc -> run pipeline for harness scanners, with classification of every way a
step can end (never folding harness failures into verdicts)."""
import os, re, shutil
from . import util, emit, model, scov

scov.install()

HARNESS = os.path.join(util.VERIF, "vf", "harness")

CC_VARIANTS = {
    "san": ["-O1", "-g", "-fno-omit-frame-pointer", "-fsanitize=address,undefined",
            "-fno-sanitize-recover=all"],
    "plain": ["-O0", "-g"],
    "opt": ["-O2", "-g"],
    "tsan": ["-O1", "-g", "-fsanitize=thread"],
}

SAN_ENV = {
    "ASAN_OPTIONS": "detect_leaks=0:abort_on_error=0:exitcode=99:allocator_may_return_null=1",
    "UBSAN_OPTIONS": "print_stacktrace=1:halt_on_error=1:exitcode=98",
    "TSAN_OPTIONS": "halt_on_error=0:exitcode=97:report_signal_unsafe=0",
}

FATAL_KINDS = [
    ("scanner jammed", "jam"), ("stack underflow", "underflow"),
    ("push-back overflow", "pushback"), ("token too large", "toobig"),
    ("scanner uses yyreject", "reject_ovf"), ("scanner uses REJECT", "reject_ovf"), ("scanner uses reject", "reject_ovf"),
    ("out of dynamic memory", "nomem"), ("out of memory", "nomem"),
    ("input in flex scanner failed", "readfail"), ("bad buffer", "badbuf"),
]


class Built:
    def __init__(self):
        self.ok = False
        self.stage = None      # "flex" | "cc"
        self.flex = None       # Result
        self.cc = None
        self.exe = None
        self.dir = None
        self.spec = None
        self.flexcmd = None
        self.cccmd = None
        self.warnings = ""

    def describe(self):
        if self.ok:
            return "ok"
        r = self.flex if self.stage == "flex" else self.cc
        return "%s failed rc=%s timed_out=%s: %s" % (
            self.stage, r.rc, r.timed_out, r.err.decode("latin1")[-1500:])


def flex_generate(flex, specpath, outpath, args=(), cwd=None, timeout=20, extra_env=None):
    cmd = [flex.bin] + list(args) + ["-o", outpath, specpath]
    r = util.run(cmd, cwd=cwd, env=flex.env(tmpdir=cwd, extra=extra_env), timeout=timeout)
    return cmd, r


def build_scanner(flex, case, flavour, outdir, flexargs=(), ccvariant="san", rng=None,
                  name="s", spec_text=None, extra_cflags=()):
    """Write the spec for `case`, run flex on it and compile the result."""
    os.makedirs(outdir, exist_ok=True)
    b = Built()
    b.dir = outdir
    if spec_text is None:
        em = emit.Emitter(case, flavour, rng)
        spec_text = em.spec()
        flexargs = tuple(flexargs) + tuple(getattr(em, "cli_args", ()))
    b.spec = os.path.join(outdir, name + ".l")
    with open(b.spec, "w", encoding="latin1") as f:
        f.write(spec_text)
    cxx = flavour == "cxx"
    out = os.path.join(outdir, name + (".cc" if cxx else ".c"))
    b.flexcmd, b.flex = flex_generate(flex, b.spec, out, flexargs, cwd=outdir)
    b.warnings = b.flex.err.decode("latin1")
    if b.flex.rc != 0 or b.flex.timed_out or not os.path.exists(out):
        b.stage = "flex"
        return b
    exe = os.path.join(outdir, name + ".exe")
    cc = ["g++" if cxx else "gcc"] + CC_VARIANTS[ccvariant] + [
        "-w", "-I", HARNESS, "-I", flex.include] + list(extra_cflags) + (scov.cflags() if ccvariant != "tsan" else []) + ["-o", exe, out]
    if ccvariant == "tsan":
        cc.append("-lpthread")
    b.cccmd = cc
    b.cc = util.run(cc, cwd=outdir, env=util.clean_env(), timeout=300)
    if b.cc.rc != 0 or b.cc.timed_out:
        b.stage = "cc"
        return b
    b.exe = exe
    b.ok = True
    return b


class RunOut:
    def __init__(self):
        self.log = ""
        self.res = None
        self.kind = None       # ok | fatal | sanitizer | signal | timeout | harness
        self.detail = ""


def classify(res, log):
    err = res.err.decode("latin1")
    if res.timed_out:
        return "timeout", "wall clock watchdog"
    if "ERROR: AddressSanitizer" in err or "runtime error:" in err or \
       "ERROR: LeakSanitizer" in err or "WARNING: ThreadSanitizer" in err or \
       res.rc in (97, 98, 99):
        return "sanitizer", err[-4000:]
    if res.rc is not None and res.rc < 0:
        return "signal", "signal %d; %s" % (-res.rc, err[-500:])
    if res.rc in (93, 94, 95, 96):
        return "harness", "harness exit %d %s" % (res.rc, err[-500:])
    if res.rc == 42:
        return "fatal", err[-500:]
    if res.rc == 41:
        return "fatal", "yylex_init failed"
    if res.rc == 0:
        return "ok", ""
    if res.rc == 2:
        # default fatal-error hook of the c99 / C++ back ends: message on stderr, exit 2
        for msg, kind in FATAL_KINDS:
            if msg in err:
                return "fatal", kind
        return "fatal", "other"
    if res.rc in (152, 137) or res.rc == -24:
        return "timeout", "cpu limit"
    return "exit", "exit status %s: %s" % (res.rc, err[-500:])


def run_scanner(built, case, workdir, tag="r", sched=None, flags=0, alloc_fail_at=0,
                read_faults=(), timeout=60, cpu_s=20, env_extra=None, bufsize=0):
    packp = os.path.join(workdir, tag + ".pack")
    logp = os.path.join(workdir, tag + ".log")
    util.write(packp, emit.pack(case, sched, flags, alloc_fail_at, read_faults, bufsize))
    env = util.clean_env(SAN_ENV)
    if env_extra:
        env.update(env_extra)
    res = util.run([built.exe, packp, logp], cwd=workdir, env=env, timeout=timeout, cpu_s=cpu_s)
    ro = RunOut()
    ro.res = res
    try:
        ro.log = util.read(logp)
    except OSError:
        ro.log = ""
    ro.kind, ro.detail = classify(res, ro.log)
    if ro.kind == "fatal" and res.rc == 2:
        # synthesize the F event the default hook could not log
        ro.log += "F %s\n" % ro.detail
    ro.pack = packp
    ro.logpath = logp
    return ro


def save_replay(dst, built, case, runout=None, extra=None):
    """Copy what is needed to re-execute a failing case into dst."""
    os.makedirs(dst, exist_ok=True)
    if built is not None:
        for p in (built.spec,):
            if p and os.path.exists(p):
                shutil.copy(p, dst)
        info = {"flexcmd": built.flexcmd, "cccmd": built.cccmd, "stage": built.stage,
                "flex_stderr": built.warnings[-4000:],
                "cc_stderr": built.cc.err.decode("latin1")[-4000:] if built.cc else ""}
    else:
        info = {}
    if runout is not None:
        for p in (runout.pack, runout.logpath):
            if os.path.exists(p):
                shutil.copy(p, dst)
        info["run"] = {"kind": runout.kind, "detail": runout.detail, "rc": runout.res.rc,
                       "stderr": runout.res.err.decode("latin1")[-6000:]}
    if extra:
        info.update(extra)
    util.jdump(info, os.path.join(dst, "info.json"))
    util.jdump(case_to_json(case), os.path.join(dst, "case.json"))


def case_to_json(x):
    if isinstance(x, (bytes, bytearray)):
        return {"__bytes__": bytes(x).hex()}
    if isinstance(x, tuple):
        return {"__tuple__": [case_to_json(v) for v in x]}
    if isinstance(x, list):
        return [case_to_json(v) for v in x]
    if isinstance(x, dict):
        return {str(k): case_to_json(v) for k, v in x.items()}
    if isinstance(x, (set, frozenset)):
        return {"__set__": sorted(case_to_json(v) for v in x)}
    return x


def case_from_json(x):
    if isinstance(x, dict):
        if "__bytes__" in x:
            return bytes.fromhex(x["__bytes__"])
        if "__tuple__" in x:
            return tuple(case_from_json(v) for v in x["__tuple__"])
        if "__set__" in x:
            return set(case_from_json(v) for v in x["__set__"])
        return {k: case_from_json(v) for k, v in x.items()}
    if isinstance(x, list):
        return [case_from_json(v) for v in x]
    return x
