"""Generation of action scripts, driver scripts and yywrap scripts for cases, inside the
domain where the manual defines the outcome (see DESIGN.md 2.3 / Appendix A)."""
from . import util


def cond(rng, body, k, pct=None):
    """Wrap ops in a hash-conditioned if (taken with probability pct%)."""
    pct = pct if pct is not None else rng.choice([25, 50, 75])
    return ("if", k, 100, pct, body)


def decorate(case, rng, f):
    """Give every non-'|' rule an action script.  f: feature -> percentage of rules."""
    nsc = len(case["scs"])
    kctr = [0]

    def k():
        kctr[0] += 1
        return kctr[0]
    uses = set()
    for r in case["rules"]:
        if r["act"] == "|":
            continue
        ops = []
        # REJECT actions stand alone (REJECT mixed with stream edits is excluded)
        if rng.chance(f.get("reject", 0)):
            pct = rng.choice([100, 100, 50, 30])
            if pct == 100:
                ops.append(("reject",))
            else:
                ops.append(cond(rng, [("reject",)], k(), pct))
            uses.add("reject")
            r["act"] = ops
            continue
        did_unput = False
        did_input = False
        if rng.chance(f.get("less", 0)):
            mode = rng.choice(["hash", "hash", "back", "abs"])
            arg = rng.rint(0, 3) if mode != "abs" else rng.rint(1, 4)
            if mode == "back" and arg == 0:
                arg = 1
            op = ("less", mode, arg, k())
            ops.append(cond(rng, [op], k()))
            uses.add("less")
        if rng.chance(f.get("input", 0)):
            ops.append(cond(rng, [("input", rng.rint(1, 4))], k()))
            uses.add("input")
            did_input = True
        if rng.chance(f.get("unput", 0)):
            alpha = f.get("unput_alpha", b"ab01 \n")
            data = bytes(alpha[rng.below(len(alpha))] for _ in range(rng.rint(1, 5)))
            ops.append(cond(rng, [("unput", data)], k()))
            uses.add("unput")
            did_unput = True
        # yymore() after yyinput()/yyunput() in one action: whether the characters they
        # moved belong to yytext is not documented -> not generated
        if rng.chance(f.get("more", 0)) and not did_unput and not did_input:
            ops.append(cond(rng, [("more",)], k()))
            uses.add("more")
        if nsc > 1 and rng.chance(f.get("begin", 0)):
            ops.append(cond(rng, [("begin", rng.below(nsc))], k()))
        if rng.chance(f.get("push", 0)):
            ops.append(cond(rng, [("push", rng.below(nsc))], k()))
            uses.add("stack")
        if rng.chance(f.get("pop", 0)):
            # pop only when the stack is certainly non-empty is not knowable statically;
            # underflow ends the run through the fatal hook, which the model predicts
            ops.append(cond(rng, [("pop",)], k(), f.get("pop_pct", 30)))
            uses.add("stack")
        if rng.chance(f.get("top", 0)):
            ops.append(("top",))
            uses.add("stack")
        if rng.chance(f.get("setbol", 0)):
            ops.append(cond(rng, [("setbol", rng.below(2))], k()))
        if rng.chance(f.get("ret", 0)):
            ops.append(cond(rng, [("ret", rng.rint(1, 9))], k()))
        r["act"] = ops
    case["uses"] = sorted(uses)
    if "reject" in uses:
        case["opts"]["uses_reject"] = True
    return uses


def driver_walk_scs(case, rng):
    """Between yylex calls the driver moves through every start condition."""
    nsc = len(case["scs"])
    if nsc <= 1:
        return
    order = list(range(nsc))
    rng.shuffle(order)
    case["driver"]["after"] = [[("begin", s)] for s in order]


def ensure_returns(case, rng, pct=40):
    for r in case["rules"]:
        if r["act"] != "|" and rng.chance(pct):
            if not any(op[0] == "ret" or (op[0] == "if" and any(o[0] == "ret" for o in op[4]))
                       for op in r["act"]):
                r["act"] = list(r["act"]) + [("ret", rng.rint(1, 9))]
