"""Pattern ASTs for the flex pattern language: meaning (sets of bytes / Thompson NFA,
taken from the manual only) and a randomised printer into flex syntax.

AST nodes (tuples):
  ("chr", b)                        one byte
  ("dot",)                          '.'  (all but \\n, or all under the s flag)
  ("ccl", neg, items)               items: ("c",b) | ("r",lo,hi) | ("p",name,neg)
  ("cclop", first, [(op, ccl)...])  op in "-+", left associative, operands are ccl nodes
  ("str", bytes)                    "quoted string"
  ("cat", [n...]) ("alt", [n...])
  ("star", n) ("plus", n) ("opt", n)
  ("rep", n, lo, hi, form)          form: "exact" {lo} | "min" {lo,} | "range" {lo,hi}
  ("prep", [n...], lo, hi, form)    the *text* n1 n2 .. nk{..}: flex binds the repeat to nk,
                                    --posix/-l to the whole series
  ("grp", n, on, off)               (?on-off:n); on=off=None -> plain parentheses
  ("ref", name)                     {name}
Flags context: (ci, dotall); `x` only changes the printing.
"""
from . import util

POSIX = {
    "alnum": lambda c: chr(c).isalnum(),
    "alpha": lambda c: chr(c).isalpha(),
    "blank": lambda c: c in (32, 9),
    "cntrl": lambda c: c < 32 or c == 127,
    "digit": lambda c: 48 <= c <= 57,
    "graph": lambda c: 33 <= c <= 126,
    "lower": lambda c: 97 <= c <= 122,
    "print": lambda c: 32 <= c <= 126,
    "punct": lambda c: 33 <= c <= 126 and not chr(c).isalnum(),
    "space": lambda c: c in (32, 9, 10, 11, 12, 13),
    "upper": lambda c: 65 <= c <= 90,
    "xdigit": lambda c: chr(c) in "0123456789abcdefABCDEF",
}
POSIX_SETS = {k: frozenset(c for c in range(128) if f(c)) for k, f in POSIX.items()}


def has_case(c):
    return 65 <= c <= 90 or 97 <= c <= 122


def rev_case(c):
    return c ^ 0x20 if has_case(c) else c


def is_upper(c):
    return 65 <= c <= 90


def is_lower(c):
    return 97 <= c <= 122


class Ctx:
    """Semantic context: alphabet size, global case-insensitivity, posix repeat
    precedence, lex-compat, definitions."""

    def __init__(self, csize=256, ci=False, posix=False, lex=False, defs=None):
        self.csize = csize
        self.ci = ci
        self.posix = posix
        self.lex = lex
        self.defs = defs or {}


def ccl_items_set(neg, items, ci, csize):
    """Meaning of [..] / [^..] as documented (incl. the case-insensitive range table)."""
    s = set()
    for it in items:
        if it[0] == "c":
            s.add(it[1])
            if ci and has_case(it[1]):
                s.add(rev_case(it[1]))
        elif it[0] == "r":
            lo, hi = it[1], it[2]
            s.update(range(lo, hi + 1))
            if ci and has_case(lo) and has_case(hi):
                rl, rh = rev_case(lo), rev_case(hi)
                if rl <= rh:  # same case at both ends: fold; otherwise literal range only
                    s.update(range(rl, rh + 1))
        elif it[0] == "p":
            name, pneg = it[1], it[2]
            base = set(POSIX_SETS[name])
            if ci and name in ("upper", "lower"):
                base = set(POSIX_SETS["alpha"])
            if pneg:
                base = set(range(csize)) - set(c for c in range(csize) if c in base)
            s.update(base)
    s = set(c for c in s if c < csize)
    if neg:
        s = set(range(csize)) - s
    return frozenset(s)


def ccl_set(node, ci, ctx):
    if node[0] == "ccl":
        return ccl_items_set(node[1], node[2], ci, ctx.csize)
    if node[0] == "cclop":
        cur = set(ccl_set(node[1], ci, ctx))
        for op, rhs in node[2]:
            r = ccl_set(rhs, ci, ctx)
            if op == "-":
                cur -= r
            else:
                cur |= r
        return frozenset(cur)
    raise ValueError(node)


# --------------------------------------------------------------------------- NFA

class NFA:
    """Thompson NFA with byte-set edges.  States are ints; eps[s] list; edges[s] list of
    (frozenset, target)."""

    def __init__(self):
        self.eps = []
        self.edges = []

    def new(self):
        self.eps.append([])
        self.edges.append([])
        return len(self.eps) - 1

    def add_eps(self, a, b):
        self.eps[a].append(b)

    def add_edge(self, a, cs, b):
        self.edges[a].append((cs, b))


def build(node, nfa, ctx, ci=None, dotall=False, depth=0):
    """Compile node into nfa; return (start, end)."""
    if ci is None:
        ci = ctx.ci
    k = node[0]
    if k == "chr":
        s, e = nfa.new(), nfa.new()
        c = node[1]
        cs = frozenset((c, rev_case(c))) if ci and has_case(c) else frozenset((c,))
        nfa.add_edge(s, cs, e)
        return s, e
    if k == "dot":
        s, e = nfa.new(), nfa.new()
        cs = frozenset(range(ctx.csize)) if dotall else frozenset(
            c for c in range(ctx.csize) if c != 10)
        nfa.add_edge(s, cs, e)
        return s, e
    if k in ("ccl", "cclop"):
        s, e = nfa.new(), nfa.new()
        cs = ccl_set(node, ci, ctx)
        if cs:
            nfa.add_edge(s, cs, e)
        return s, e
    if k == "str":
        s = cur = nfa.new()
        for c in node[1]:
            n = nfa.new()
            cs = frozenset((c, rev_case(c))) if ci and has_case(c) else frozenset((c,))
            nfa.add_edge(cur, cs, n)
            cur = n
        return s, cur
    if k == "cat":
        s = cur = nfa.new()
        for ch in node[1]:
            a, b = build(ch, nfa, ctx, ci, dotall, depth + 1)
            nfa.add_eps(cur, a)
            cur = b
        return s, cur
    if k == "alt":
        s, e = nfa.new(), nfa.new()
        for ch in node[1]:
            a, b = build(ch, nfa, ctx, ci, dotall, depth + 1)
            nfa.add_eps(s, a)
            nfa.add_eps(b, e)
        return s, e
    if k in ("star", "plus", "opt"):
        a, b = build(node[1], nfa, ctx, ci, dotall, depth + 1)
        s, e = nfa.new(), nfa.new()
        nfa.add_eps(s, a)
        nfa.add_eps(b, e)
        if k in ("star", "opt"):
            nfa.add_eps(s, e)
        if k in ("star", "plus"):
            nfa.add_eps(b, a)
        return s, e
    if k == "rep":
        return build_rep(node[1], node[2], node[3], node[4], nfa, ctx, ci, dotall, depth)
    if k == "prep":
        nodes, lo, hi, form = node[1], node[2], node[3], node[4]
        if ctx.posix or ctx.lex:
            return build_rep(("cat", list(nodes)), lo, hi, form, nfa, ctx, ci, dotall, depth)
        inner = ("cat", list(nodes[:-1]) + [("rep", nodes[-1], lo, hi, form)])
        return build(inner, nfa, ctx, ci, dotall, depth + 1)
    if k == "grp":
        on, off = node[2], node[3]
        nci, nda = ci, dotall
        if on:
            if "i" in on:
                nci = True
            if "s" in on:
                nda = True
        if off:
            if "i" in off:
                nci = False
            if "s" in off:
                nda = False
        return build(node[1], nfa, ctx, nci, nda, depth + 1)
    if k == "ref":
        if depth > 64:
            raise ValueError("definition recursion")
        d = ctx.defs[node[1]]
        # definitions are re-lexed at the point of use, so they see the flags in force
        return build(d, nfa, ctx, ci, dotall, depth + 1)
    raise ValueError("unknown node %r" % (node,))


def build_rep(child, lo, hi, form, nfa, ctx, ci, dotall, depth):
    s = cur = nfa.new()
    if form == "exact":
        hi = lo
    n_mand = lo
    for _ in range(n_mand):
        a, b = build(child, nfa, ctx, ci, dotall, depth + 1)
        nfa.add_eps(cur, a)
        cur = b
    if form == "min":
        a, b = build(child, nfa, ctx, ci, dotall, depth + 1)
        e = nfa.new()
        nfa.add_eps(cur, a)
        nfa.add_eps(cur, e)
        nfa.add_eps(b, a)
        nfa.add_eps(b, e)
        return s, e
    e = nfa.new()
    for _ in range(hi - lo):
        nfa.add_eps(cur, e)
        a, b = build(child, nfa, ctx, ci, dotall, depth + 1)
        nfa.add_eps(cur, a)
        cur = b
    nfa.add_eps(cur, e)
    return s, e


def eclose(nfa, states):
    seen = set(states)
    st = list(states)
    while st:
        s = st.pop()
        for t in nfa.eps[s]:
            if t not in seen:
                seen.add(t)
                st.append(t)
    return frozenset(seen)


def step(nfa, states, c):
    nxt = set()
    for s in states:
        for cs, t in nfa.edges[s]:
            if c in cs:
                nxt.add(t)
    if not nxt:
        return frozenset()
    return eclose(nfa, nxt)


class Matcher:
    """Single-pattern matcher (used for head/trail split computation and witnesses)."""

    def __init__(self, node, ctx):
        self.nfa = NFA()
        self.s, self.e = build(node, self.nfa, ctx)
        self.start = eclose(self.nfa, [self.s])
        self.cache = {}

    def prefixes(self, data, pos=0, limit=None):
        """Set of lengths L such that data[pos:pos+L] is in the language."""
        out = set()
        cur = self.start
        i = pos
        end = len(data) if limit is None else min(len(data), pos + limit)
        if self.e in cur:
            out.add(0)
        while cur and i < end:
            key = (cur, data[i])
            nx = self.cache.get(key)
            if nx is None:
                nx = step(self.nfa, cur, data[i])
                self.cache[key] = nx
            cur = nx
            i += 1
            if self.e in cur:
                out.add(i - pos)
        return out

    def matches(self, data):
        return len(data) in self.prefixes(data, 0, len(data))


def fixed_length(node, ctx, ci=False, depth=0):
    """Length of every string of the language if all have the same length, else None.
    (Semantic notion; flex's own syntactic notion is narrower.)"""
    k = node[0]
    if k in ("chr", "dot", "ccl", "cclop"):
        return 1
    if k == "str":
        return len(node[1])
    if k == "cat":
        t = 0
        for ch in node[1]:
            l = fixed_length(ch, ctx, ci, depth + 1)
            if l is None:
                return None
            t += l
        return t
    if k == "alt":
        ls = set(fixed_length(ch, ctx, ci, depth + 1) for ch in node[1])
        if len(ls) == 1 and None not in ls:
            return ls.pop()
        return None
    if k in ("star", "plus", "opt"):
        return None
    if k == "rep":
        l = fixed_length(node[1], ctx, ci, depth + 1)
        if l is None:
            return None
        if node[4] == "exact":
            return l * node[2]
        if node[4] == "range" and node[2] == node[3]:
            return l * node[2]
        if l == 0:
            return 0
        return None
    if k == "prep":
        return None
    if k == "grp":
        return fixed_length(node[1], ctx, ci, depth + 1)
    if k == "ref":
        if depth > 64:
            return None
        return fixed_length(ctx.defs[node[1]], ctx, ci, depth + 1)
    return None


def can_match_newline(node, ctx, ci=None, dotall=False):
    """Can some string of the language contain a newline?  (Exact, via the NFA.)"""
    nfa = NFA()
    s, e = build(node, nfa, ctx, ci, dotall)
    # states reachable from s and co-reachable to e
    fwd = set()
    st = [s]
    while st:
        x = st.pop()
        if x in fwd:
            continue
        fwd.add(x)
        st.extend(nfa.eps[x])
        st.extend(t for cs, t in nfa.edges[x] if cs)
    rev = {}
    for a in range(len(nfa.eps)):
        for b in nfa.eps[a]:
            rev.setdefault(b, []).append(a)
        for cs, b in nfa.edges[a]:
            if cs:
                rev.setdefault(b, []).append(a)
    bwd = set()
    st = [e]
    while st:
        x = st.pop()
        if x in bwd:
            continue
        bwd.add(x)
        st.extend(rev.get(x, []))
    for a in fwd:
        for cs, b in nfa.edges[a]:
            if 10 in cs and b in bwd:
                return True
    return False


def uses_high(node, ctx, ci=False, depth=0):
    """Does the pattern text mention a byte >= 128 explicitly (needs an 8-bit scanner)?"""
    k = node[0]
    if k == "chr":
        return node[1] >= 128
    if k == "str":
        return any(c >= 128 for c in node[1])
    if k == "ccl":
        for it in node[2]:
            if it[0] == "c" and it[1] >= 128:
                return True
            if it[0] == "r" and it[2] >= 128:
                return True
        return False
    if k == "cclop":
        return uses_high(node[1], ctx) or any(uses_high(r, ctx) for _, r in node[2])
    if k in ("cat", "alt"):
        return any(uses_high(c, ctx, ci, depth + 1) for c in node[1])
    if k == "prep":
        return any(uses_high(c, ctx, ci, depth + 1) for c in node[1])
    if k in ("star", "plus", "opt", "rep", "grp"):
        return uses_high(node[1], ctx, ci, depth + 1)
    if k == "ref":
        if depth > 64:
            return False
        return uses_high(ctx.defs[node[1]], ctx, ci, depth + 1)
    return False


def node_kinds(node, out=None):
    if out is None:
        out = set()
    k = node[0]
    out.add(k)
    if k in ("cat", "alt", "prep"):
        for c in node[1]:
            node_kinds(c, out)
    elif k in ("star", "plus", "opt", "rep", "grp"):
        if k == "grp":
            if node[2] is None and node[3] is None:
                out.add("paren")
            else:
                for f in (node[2] or ""):
                    out.add("flag+" + f)
                for f in (node[3] or ""):
                    out.add("flag-" + f)
        if k == "rep":
            out.add("rep:" + node[4])
        node_kinds(node[1], out)
    elif k == "ccl":
        if node[1]:
            out.add("ccl^")
        for it in node[2]:
            out.add("ccl:" + it[0] + ("^" if it[0] == "p" and it[2] else ""))
    elif k == "cclop":
        node_kinds(node[1], out)
        for op, r in node[2]:
            out.add("cclop" + op)
            node_kinds(r, out)
    return out


# --------------------------------------------------------------------------- printer

NAMED_ESC = {7: "a", 8: "b", 12: "f", 10: "n", 13: "r", 9: "t", 11: "v"}
RAW_TOP = set(b"abcdefghijklmnopqrstuvwxyzABCDEFGHIJKLMNOPQRSTUVWXYZ0123456789_,:;=!@&~-'`")
PUNCT_BS_TOP = set(b"\"\\[]^$.*+?(){}|/<> #%,:;=!@&~-'`")   # may be written as \c
RAW_STR = set(range(32, 127)) - set(b'"\\')
RAW_CCL = set(range(32, 127)) - set(b"\\]-^[")


class Printer:
    """Prints ASTs.  `rng` picks among equivalent documented spellings; rng=None gives a
    canonical conservative spelling."""

    def __init__(self, rng=None, posix=False, allow_raw_high=True):
        # choices are derived from (seed, node) rather than from a running stream, so that
        # deleting or simplifying one rule leaves the spelling of the others unchanged
        # (needed for delta debugging)
        self.seed = rng.u64() if rng is not None else None
        self.rng = None
        self.posix = posix
        self.allow_raw_high = allow_raw_high
        self.oneline = False

    def _pick(self, n):
        return self.rng.below(n) if self.rng else 0

    def esc_generic(self, c, nxt_is_digit_risk=True):
        """An escape spelling valid in every context: \\xHH, \\ooo, named."""
        forms = []
        if c in NAMED_ESC:
            forms.append("\\" + NAMED_ESC[c])
        forms.append("\\x%02x" % c)
        forms.append("\\x%02X" % c)
        forms.append("\\%03o" % c)
        if c == 0:
            forms.append("\\000")
        return forms[self._pick(len(forms))] if self.rng else forms[0]

    def chr_top(self, c):
        forms = []
        if c in RAW_TOP:
            forms += [chr(c)] * 4
        if c in PUNCT_BS_TOP:
            forms += ["\\" + chr(c)] * 2
        if c in RAW_STR:
            forms.append('"%s"' % chr(c))
        if c in RAW_CCL:
            forms.append("[%s]" % chr(c))
        forms.append(self.esc_generic(c))
        if c >= 128 and self.allow_raw_high and self.rng and self.rng.chance(20):
            return bytes([c]).decode("latin1")
        if self.rng is None:
            return chr(c) if c in RAW_TOP else ("\\" + chr(c) if c in PUNCT_BS_TOP and c != 32
                                                else "\\x%02x" % c)
        return forms[self._pick(len(forms))]

    def chr_str(self, c):
        if c in RAW_STR and (self.rng is None or not self.rng.chance(10)):
            return chr(c)
        if c in (34, 92):
            if self.rng is None or self.rng.chance(70):
                return "\\" + chr(c)
        if c >= 128 and self.allow_raw_high and self.rng and self.rng.chance(20):
            return bytes([c]).decode("latin1")
        return self.esc_generic(c)

    def chr_ccl(self, c):
        if c in RAW_CCL and (self.rng is None or not self.rng.chance(10)):
            return chr(c)
        if c in b"\\]-^[":
            if self.rng is None or self.rng.chance(70):
                return "\\" + chr(c)
        if c >= 128 and self.allow_raw_high and self.rng and self.rng.chance(20):
            return bytes([c]).decode("latin1")
        return self.esc_generic(c)

    def ccl(self, node):
        neg, items = node[1], node[2]
        out = ["[", "^" if neg else ""]
        items = list(items)
        # documented literal positions: ']' or '-' right after '[' / '[^', '-' before ']'
        lead = ""
        tail = ""
        if self.rng and items:
            if items[0] == ("c", 93) and self.rng.chance(50):
                lead = "]"
                items = items[1:]
            elif items[0] == ("c", 45) and self.rng.chance(50):
                lead = "-"
                items = items[1:]
        if self.rng and items and items[-1] == ("c", 45) and self.rng.chance(50):
            tail = "-"
            items = items[:-1]
        out.append(lead)
        for it in items:
            if it[0] == "c":
                out.append(self.chr_ccl(it[1]))
            elif it[0] == "r":
                out.append(self.chr_ccl(it[1]) + "-" + self.chr_ccl(it[2]))
            else:
                out.append("[:%s%s:]" % ("^" if it[2] else "", it[1]))
        out.append(tail)
        out.append("]")
        return "".join(out)

    def toks(self, node, xmode=False, top=True):
        """Token list for a node in concatenation context."""
        saved = self.rng
        if self.seed is not None:
            self.rng = util.Rng(self.seed, repr(node))
        try:
            return self._toks(node, xmode, top)
        finally:
            self.rng = saved

    def _toks(self, node, xmode=False, top=True):
        k = node[0]
        if k == "chr":
            return [self.chr_top(node[1])]
        if k == "dot":
            return ["."]
        if k == "ccl":
            return [self.ccl(node)]
        if k == "cclop":
            s = self.ccl(node[1]) if node[1][0] == "ccl" else "".join(self.toks(node[1]))
            for op, r in node[2]:
                s += "{%s}" % op + self.ccl(r)
            return [s]
        if k == "str":
            return ['"' + "".join(self.chr_str(c) for c in node[1]) + '"']
        if k == "cat":
            out = []
            for ch in node[1]:
                if ch[0] == "alt":
                    out += self.toks(("grp", ch, None, None), xmode, False)
                else:
                    out += self.toks(ch, xmode, False)
            return out
        if k == "alt":
            out = []
            for i, ch in enumerate(node[1]):
                if i:
                    out.append("|")
                out += self.toks(ch, xmode, False)
            return out
        if k in ("star", "plus", "opt", "rep"):
            ch = node[1]
            single = ch[0] in ("chr", "dot", "ccl", "cclop", "str", "grp", "ref")
            # a quoted string is a singleton for the flex grammar only when it has one char
            if ch[0] == "str" and len(ch[1]) != 1:
                single = False
            if ch[0] == "ref":
                single = True
            inner = self.toks(ch, xmode, False) if single else self.toks(
                ("grp", ch, None, None), xmode, False)
            if k == "rep":
                lo, hi, form = node[2], node[3], node[4]
                op = "{%d}" % lo if form == "exact" else (
                    "{%d,}" % lo if form == "min" else "{%d,%d}" % (lo, hi))
                if self.posix:
                    # --posix: the repeat binds to the whole series to its left; give it a
                    # series of its own
                    if not (ch[0] == "grp"):
                        inner = self.toks(("grp", ch, None, None), xmode, False)
                    return ["("] + inner[:-1] + [inner[-1] + op] + [")"]
            else:
                op = {"star": "*", "plus": "+", "opt": "?"}[k]
            return inner[:-1] + [inner[-1] + op]
        if k == "prep":
            out = []
            for ch in node[1]:
                out += self.toks(ch, xmode, False)
            lo, hi, form = node[2], node[3], node[4]
            op = "{%d}" % lo if form == "exact" else (
                "{%d,}" % lo if form == "min" else "{%d,%d}" % (lo, hi))
            out[-1] += op
            return out
        if k == "grp":
            on, off = node[2], node[3]
            if on is None and off is None:
                head = "(?:" if (self.rng and not self.posix and self.rng.chance(15)) else "("
                nx = xmode
            else:
                head = "(?" + (on or "") + ("-" + off if off else "") + ":"
                nx = xmode
                if on and "x" in on:
                    nx = True
                if off and "x" in off:
                    nx = False
            inner = self.toks(node[1], nx, False)
            if nx:
                inner = self.sprinkle(inner)
            # one token: an enclosing (?x: ) group must not put blanks inside a (?-x: ) one
            return [head + "".join(inner) + ")"]
        if k == "ref":
            return ["{%s}" % node[1]]
        raise ValueError(node)

    def sprinkle(self, toks):
        """Free whitespace and comments between tokens of an (?x: ) group."""
        if not self.rng:
            return toks
        out = []
        for i, t in enumerate(toks):
            if self.rng.chance(30):
                w = self.rng.choice([" ", "  ", "\t", " /* c */ ", " /* a b\n   c */ "])
                if self.oneline:
                    w = w.replace("\n", " ")
                out.append(w)
            out.append(t)
        if self.rng.chance(20):
            out.append(" ")
        return out

    def pattern(self, node):
        return "".join(self.toks(node))


def lit(s):
    if isinstance(s, str):
        s = s.encode("latin1")
    if len(s) == 1:
        return ("chr", s[0])
    return ("cat", [("chr", c) for c in s])
