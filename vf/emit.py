"""Turn a case (data) into a flex specification for one API flavour, plus the binary
input pack the harness runtime reads.

Flavours:  nr  = default back end, non-reentrant C
           r   = default back end, %option reentrant
           c99 = --emit=c99
           cxx = default back end, %option c++ (class, yyclass subclass)
Action text uses the documented interfaces literally (yytext, yyleng, yylineno, yystart(),
yybegin(), yyless(), yymore(), yyinput(), yyunput(), yyreject(), yy_push_state() ...), so
the c99 back end's rewriting of those names is exercised too.
"""
import struct
from . import pat, util

C = "vf_tls"      # context expression inside generated code

CLI_OK = {"reentrant", "yylineno", "stack", "case-insensitive", "7bit", "interactive", "batch",
          "c++", "nodefault", "reject", "posix-compat", "always-interactive",
          "never-interactive", "read"}


class Flavour:
    def __init__(self, name):
        self.name = name
        self.nr = name == "nr"
        self.r = name == "r"
        self.c99 = name == "c99"
        self.cxx = name == "cxx"
        # text of the trailing / sole scanner argument in *explicit* calls
        self.a1 = ", yyscanner" if name in ("r", "c99") else ""
        self.a0 = "yyscanner" if name in ("r", "c99") else ""

    def call(self, fn, args=""):
        """Call of an API function that is NOT rewritten by flex / not a macro."""
        if self.r or self.c99:
            return "%s(%s%s)" % (fn, args, (", yyscanner" if args else "yyscanner"))
        return "%s(%s)" % (fn, args)

    def input_call(self):
        # c99: yyinput() is rewritten by flex; r: explicit argument
        if self.r:
            return "yyinput(yyscanner)"
        return "yyinput()"

    def sc_expr(self):
        return "yystart()"


def cbytes(b):
    return ", ".join(str(x) for x in b) if len(b) else "0"


class Emitter:
    def __init__(self, case, flavour, rng=None):
        self.case = case
        self.o = case["opts"]
        self.fl = Flavour(flavour)
        self.rng = rng
        self.seed = rng.u64() if rng is not None else 0
        self.pr = pat.Printer(rng, posix=bool(self.o.get("posix") or self.o.get("lex")),
                              allow_raw_high=self.o.get("bits") != 7)
        self.uniq = 0
        # spelling of the calls of flex's own action functions, one choice per specification:
        # name(), name (), name ( )  (C allows all; flex has to recognise yymore/yyreject)
        self.callsp = 0
        if rng is not None and not self.fl.c99:
            self.callsp = [0, 0, 1, 2][self.seed % 4]
        self.track_ln = bool(self.o.get("yylineno"))
        self.uses = set()

    def call0(self, name):
        """name() in the specification's spelling."""
        return name + ["()", " ()", " ( )"][self.callsp]

    def ln(self):
        return "yylineno" if self.track_ln else "VF_NOLN"

    # ------------------------------------------------------------- action ops -> C
    def ops_c(self, ops, indent="\t", in_yylex=True):
        out = []
        fl = self.fl
        for op in ops:
            k = op[0]
            if k == "if":
                _, kk, mod, thr, body = op
                out.append("%sif (vf_H(%s, %du) %% %du < %du) {" % (indent, C, kk, mod, thr))
                out += self.ops_c(body, indent + "\t", in_yylex)
                out.append("%s}" % indent)
            elif k == "echo":
                out.append("%syyecho();" % indent)
            elif k == "ret":
                out.append("%sreturn %d;" % (indent, op[1]))
            elif k == "term":
                out.append("%s%s;" % (indent, self.call0("yyterminate") if not self.fl.c99 else "yyterminate()"))
            elif k == "begin":
                if in_yylex:
                    # the argument is an expression, not always a literal: a macro
                    # implementation must parenthesise it
                    sc = op[1]
                    form = util.Rng(self.seed, "begin", repr(ops)).below(4) if self.rng else 0
                    if form == 1 and sc > 0:
                        arg = "%d + %d" % (sc - sc // 2, sc // 2)
                    elif form == 2:
                        arg = "vf_zero ? %d : %d" % (sc + 1, sc)
                    elif form == 3:
                        arg = "%d - vf_zero" % sc
                    else:
                        arg = "%d" % sc
                    out.append("%syybegin(%s); vf_evi(%s, \"B\", yystart());" % (indent, arg, C))
                else:
                    out.append("%s%s; vf_evi(%s, \"B\", %s);" % (
                        indent, self.drv_begin(op[1]), C, self.drv_start()))
                self.uses.add("begin")
            elif k == "push":
                call = fl.call("yy_push_state", str(op[1]))
                if fl.cxx and not in_yylex:
                    call = "lexer->vf_push(%d)" % op[1]
                out.append("%s%s; vf_evi(%s, \"P\", %s);" % (
                    indent, call, C, "yystart()" if in_yylex else self.drv_start()))
                self.uses.add("stack")
            elif k == "pop":
                call = fl.call("yy_pop_state")
                if fl.cxx and not in_yylex:
                    call = "lexer->vf_pop()"
                out.append("%s%s; vf_evi(%s, \"O\", %s);" % (
                    indent, call, C, "yystart()" if in_yylex else self.drv_start()))
                self.uses.add("stack")
            elif k == "top":
                call = fl.call("yy_top_state")
                if fl.cxx and not in_yylex:
                    call = "lexer->vf_top()"
                out.append("%svf_evi(%s, \"Q\", %s);" % (indent, C, call))
                self.uses.add("stack")
                self.uses.add("top")
            elif k == "setbol":
                out.append("%syysetbol(%d); vf_evi(%s, \"Y\", %d);" % (indent, op[1], C, op[1]))
            elif k == "more":
                out.append("%svf_M(%s, yyleng); %s;" % (indent, C, self.call0("yymore")))
                self.uses.add("yymore")
            elif k == "less":
                mode = {"abs": 0, "back": 1, "hash": 2, "abs0": 3}[op[1]]
                call = "yyless(vf_n)"
                if self.o.get("less_in_sect3") and in_yylex and not fl.cxx:
                    # through a function of section 3: the skeleton's second definition of yyless
                    call = "vf_less3(vf_n%s)" % fl.a1
                    self.uses.add("less3")
                out.append("%s{ int vf_n = vf_less_n(%s, %d, %d, %du, yyleng); %s; "
                           "vf_L(%s, vf_n, yytext, yyleng); }" % (indent, C, mode, op[2], op[3], call, C))
            elif k == "unput":
                self.uniq += 1
                n = len(op[1])
                out.append("%s{ static const unsigned char vf_u%d[] = { %s }; int vf_i; "
                           "vf_U(%s, vf_u%d, %d); for (vf_i = %d; vf_i >= 0; --vf_i) "
                           "{ char vf_c = (char) vf_u%d[vf_i]; yyunput(vf_c); } }" % (
                               indent, self.uniq, cbytes(op[1]), C, self.uniq, n, n - 1,
                               self.uniq))
                self.uses.add("unput")
            elif k == "input":
                out.append("%s{ int vf_i; for (vf_i = 0; vf_i < %d; ++vf_i) { int vf_c = %s; "
                           "if (!vf_I(%s, vf_c)) break; } }" % (indent, op[1], fl.input_call(), C))
                self.uses.add("input")
            elif k == "reject":
                out.append("%svf_ev1(%s, \"J\");" % (indent, C))
                if fl.c99 or (self.rng and util.Rng(self.seed, repr(ops)).chance(50)):
                    out.append("%s%s;" % (indent, self.call0("yyreject")))
                else:
                    out.append("%sREJECT;" % indent)
                self.uses.add("reject")
            elif k == "x":
                out += self.xop_c(op[1], indent, in_yylex)
            else:
                raise ValueError("emit: unknown op %r" % (op,))
        return out

    # driver-context spellings
    def drv_begin(self, sc):
        fl = self.fl
        if fl.c99:
            return "yybegin(%s, yyscanner)" % sc
        if fl.cxx:
            return "lexer->vf_begin(%s)" % sc
        if fl.r:
            return "vf_begin_r(%s, yyscanner)" % sc
        return "yybegin(%s)" % sc

    def drv_start(self):
        fl = self.fl
        if fl.c99:
            return "yystart(yyscanner)"
        if fl.cxx:
            return "lexer->vf_start()"
        if fl.r:
            return "vf_start_r(yyscanner)"
        return "yystart()"

    def src_fp(self, i):
        return "%s->src[%d].fp" % (C, i)

    def xop_c(self, op, indent, in_yylex):
        fl = self.fl
        k = op[0]
        o = []
        ind = indent
        if k in ("open", "open_buf", "newin", "restart", "open_restart"):
            o.append("%svf_rewind(%s, %d);" % (ind, C, op[1]))
        if fl.cxx and k in ("open", "newin", "restart"):
            o.append('%svf_X(%s, "%s %d");' % (ind, C, k, op[1]))
            o.append("%s%s->cur_src = %d;" % (ind, C, op[1]))
            if self.o.get("cxx_stream") and k == "open" and not in_yylex:
                o.append("%slexer->vf_stream(%s->src[%d].d, %s->src[%d].n);" % (ind, C, op[1], C, op[1]))
            if k == "restart":
                o.append("%s%syyrestart(std::cin);" % (ind, "" if in_yylex else "lexer->"))
            return o
        if k == "open":
            o.append('%svf_X(%s, "open %d");' % (ind, C, op[1]))
            if fl.nr:
                o.append("%syyin = %s; yyout = %s->out;" % (ind, self.src_fp(op[1]), C))
            else:
                o.append("%syyset_in(%s, yyscanner); yyset_out(%s->out, yyscanner);" % (
                    ind, self.src_fp(op[1]), C))
        elif k == "open_buf":
            self.uses.add("bufhelpers")
            o.append('%svf_X(%s, "open_buf %d");' % (ind, C, op[1]))
            if fl.nr:
                o.append("%syyin = %s; yyout = %s->out;" % (ind, self.src_fp(op[1]), C))
            else:
                o.append("%syyset_in(%s, yyscanner); yyset_out(%s->out, yyscanner);" % (
                    ind, self.src_fp(op[1]), C))
            o.append("%s%s->slot[0] = %s; %s->slotsrc[0] = %d; %s->bstk[0] = 0; %s->bdepth = 1;" % (
                ind, C, fl.call("yy_create_buffer", "%s, %s->bufsize ? (int) %s->bufsize : YY_BUF_SIZE"
                                % (self.src_fp(op[1]), C, C)),
                C, op[1], C, C))
            o.append("%s%s;" % (ind, fl.call("yy_switch_to_buffer", "(yybuffer) %s->slot[0]" % C)))
        elif k == "open_restart":
            self.uses.add("bufhelpers")
            o.append('%svf_X(%s, "open_restart %d");' % (ind, C, op[1]))
            if fl.nr:
                o.append("%syyout = %s->out;" % (ind, C))
            else:
                o.append("%syyset_out(%s->out, yyscanner);" % (ind, C))
            o.append("%s%s;" % (ind, fl.call("yyrestart", self.src_fp(op[1]))))
            o.append("%s%s->slot[0] = (void *) %s; %s->slotsrc[0] = %d; %s->bstk[0] = 0; %s->bdepth = 1;" % (
                ind, C, self.cur_buffer(), C, op[1], C, C))
        elif k == "newin":
            o.append('%svf_X(%s, "newin %d");' % (ind, C, op[1]))
            if fl.nr:
                o.append("%syyin = %s;" % (ind, self.src_fp(op[1])))
            else:
                o.append("%syyset_in(%s, yyscanner);" % (ind, self.src_fp(op[1])))
        elif k == "restart":
            o.append('%svf_X(%s, "restart %d");' % (ind, C, op[1]))
            o.append("%s%s;" % (ind, fl.call("yyrestart", self.src_fp(op[1]))))
        elif k == "begin":
            o.append("%s%s; vf_evi(%s, \"B\", %s);" % (ind, self.drv_begin(op[1]), C,
                                                      self.drv_start()))
        elif k == "begin_param":
            o.append("%s%s; vf_evi(%s, \"B\", %s);" % (
                ind, self.drv_begin("(int) %s->bufsize" % C), C, self.drv_start()))
        elif k == "create":
            size = op[3] if len(op) > 3 and op[3] else "YY_BUF_SIZE"
            o.append('%svf_X(%s, "create %d %d");' % (ind, C, op[1], op[2]))
            o.append("%s%s->slot[%d] = %s;" % (ind, C, op[1], fl.call(
                "yy_create_buffer", "%s, %s" % (self.src_fp(op[2]), size))))
        elif k in ("scan_string", "scan_bytes"):
            o.append('%svf_X(%s, "%s %d %d");' % (ind, C, k, op[1], op[2]))
            if k == "scan_string":
                arg = "(const char *) %s->str[%d]" % (C, op[2])
            else:
                arg = "(const char *) %s->str[%d], (int) %s->strn[%d]" % (C, op[2], C, op[2])
            o.append("%s%s->slot[%d] = %s;" % (ind, C, op[1], fl.call("yy_" + k, arg)))
        elif k == "scan_buffer":
            # in place on a private copy (with or without the two NULs)
            ok = op[3]
            o.append("%s{ size_t vf_n = %s->strn[%d]; char *vf_m = (char *) malloc(vf_n + 2); "
                     "memcpy(vf_m, %s->str[%d], vf_n); vf_m[vf_n] = %s; vf_m[vf_n + 1] = 0; "
                     "%s->slotmem[%d] = vf_m; %s->slot[%d] = %s; "
                     "vf_X(%s, %s->slot[%d] ? \"scan_buffer %d %d ok\" : \"scan_buffer %d %d null\"); }"
                     % (ind, C, op[2], C, op[2], "0" if ok else "'x'", C, op[1], C, op[1],
                        fl.call("yy_scan_buffer", "vf_m, vf_n + 2"), C, C, op[1],
                        op[1], op[2], op[1], op[2]))
        elif k == "switch":
            o.append('%svf_X(%s, "switch %d");' % (ind, C, op[1]))
            o.append("%s%s;" % (ind, fl.call("yy_switch_to_buffer",
                                           "(yybuffer) %s->slot[%d]" % (C, op[1]))))
        elif k == "bpush":
            o.append('%svf_X(%s, "bpush %d");' % (ind, C, op[1]))
            o.append("%s%s;" % (ind, fl.call("yypush_buffer_state",
                                           "(yybuffer) %s->slot[%d]" % (C, op[1]))))
        elif k == "bpop":
            o.append('%svf_X(%s, "bpop");' % (ind, C))
            o.append("%s%s;" % (ind, fl.call("yypop_buffer_state")))
        elif k == "delete":
            o.append('%svf_X(%s, "delete %d");' % (ind, C, op[1]))
            o.append("%s%s; %s->slot[%d] = 0;" % (ind, fl.call(
                "yy_delete_buffer", "(yybuffer) %s->slot[%d]" % (C, op[1])), C, op[1]))
        elif k in ("gcreate", "gswitch", "gpush", "gpop", "gdelete", "gscan_bytes",
                   "gscan_string", "gscan_buffer", "gflush", "greflush", "gdelrestart", "gdelpush"):
            self.uses.add("bufhelpers")
            args = [str(a) for a in op[1:]]
            if k == "gcreate" and len(op) < 4:
                args.append("0")
            if k == "gscan_buffer":
                args[-1] = "1" if op[3] else "0"
            a = ", ".join(args + ([fl.a0] if fl.a0 else []))
            o.append("%svfb_%s(%s);" % (ind, k[1:], a))
        elif k == "gdelete_all":
            self.uses.add("bufhelpers")
            o.append("%svfb_delete_all(%s);" % (ind, fl.a0))
        elif k == "tables":
            # load the serialized tables named by $VF_TABLES; a failing load ends the run
            o.append("%s{ const char *vf_p = getenv(\"VF_TABLES\"); FILE *vf_f = vf_p ? fopen(vf_p, \"rb\") : 0; "
                     "int vf_rc = vf_f ? %s : -99; char vf_b[48]; if (vf_f) fclose(vf_f); "
                     "snprintf(vf_b, sizeof vf_b, \"tables %%d\", vf_rc ? 1 : 0); vf_X(%s, vf_b); "
                     "if (vf_rc) { %s; %s vf_ev1(%s, \"Z\"); vf_finish(%s, 0); } }" % (
                         ind, fl.call("yytables_fload", "vf_f"), C, fl.call("yytables_destroy"),
                         ("vf_ledger_report(%s);" % C) if self.o.get("ledger") else "", C, C))
        elif k == "tables_destroy":
            o.append("%s%s;" % (ind, fl.call("yytables_destroy")))
        elif k == "setlineno":
            o.append('%svf_X(%s, "setlineno %d");' % (ind, C, op[1]))
            if self.track_ln:
                o.append("%s%s;" % (ind, fl.call("yyset_lineno", str(op[1]))))
        else:
            raise ValueError("emit: unknown driver op %r" % (op,))
        return o

    # ------------------------------------------------------------- rules
    def sc_prefix(self, scs):
        if scs is None:
            return ""
        if scs == "*":
            return "<*>"
        return "<" + ",".join(self.case["scs"][i][0] for i in scs) + ">"

    def rule_text(self, r):
        s = self.sc_prefix(r.get("scs"))
        if r.get("bol"):
            s += "^"
        s += self.pr.pattern(r["pat"])
        if r.get("trail") is not None:
            if r.get("dollar"):
                s += "$"
            else:
                t = self.pr.pattern(r["trail"])
                if self.last_is_ref(r["trail"]):
                    # known finding K01: a {name} that ends a trailing-context rule is
                    # expanded without parentheses; keep it out of that position
                    t = "(" + t + ")"
                s += "/" + t
        return s

    @staticmethod
    def last_is_ref(node):
        while True:
            k = node[0]
            if k == "ref":
                return True
            if k == "cat" and node[1]:
                node = node[1][-1]
            elif k == "alt" and node[1]:
                return any(Emitter.last_is_ref(c) for c in node[1])
            else:
                return False

    def spec(self):
        case, o, fl = self.case, self.o, self.fl
        L = []
        body = []      # rules section
        self._rule_pos = {}

        def emit_rule(i, own_scs):
            r = case["rules"][i]
            r2 = dict(r)
            r2["scs"] = own_scs
            txt = self.rule_text(r2)
            self._rule_pos[i] = (len(body), txt.count("\n"))
            if r["act"] == "|":
                body.append("%s\t|" % txt)
                return
            act = ["\tvf_T(%s, %d, yytext, yyleng, yystart(), %s);" % (C, i + 1, self.ln())]
            act += self.ops_c(r["act"])
            # one action in six is written with %{ %} instead of braces (same meaning; not for
            # the c99 back end, whose rewriting skips such actions: known finding K04)
            if self.rng is not None and not fl.c99 and util.mix32(case.get("seed", 0) & util.M32, i, 4242) % 6 == 0:
                body.append("%s\t%%{\n%s\n%%}" % (txt, "\n".join(act)))
            else:
                body.append("%s\t{\n%s\n\t}" % (txt, "\n".join(act)))

        def emit_items(items):
            for it in items:
                if isinstance(it, int):
                    emit_rule(it, case["rules"][it].get("scs_own"))
                else:
                    _, sclist, sub = it
                    body.append("%s{" % self.sc_prefix(sclist))
                    emit_items(sub)
                    body.append("}")

        if case.get("layout"):
            # start condition scopes: r["scs"] holds the effective (union) list, the text
            # shows only the rule's own list inside the scope
            emit_items(case["layout"])
        else:
            for i, r in enumerate(case["rules"]):
                emit_rule(i, r.get("scs"))
        for e in case.get("eofs", []):
            act = ["\tvf_E(%s, yystart(), %s);" % (C, self.ln())]
            act += self.ops_c(e["act"])
            body.append("%s<<EOF>>\t{\n%s\n\t}" % (self.sc_prefix(e.get("scs")), "\n".join(act)))
        # pre-scan wrap/driver for feature use
        drv = self.driver_c()

        L.append("%top{")
        L.append('#include "vf_rt.h"')
        if o.get("use_read"):
            L.append("#define read(fd,buf,n) vf_sys_read((fd),(buf),(n))")
        if fl.c99:
            L.append("struct yyguts_t;")
            if o.get("input", "yyinput_macro") != "stdio":
                L.append("static int yyread(char *buf, size_t max_size, struct yyguts_t *yyscanner);")
            if o.get("ledger"):
                L.append("void *yyalloc(size_t n, struct yyguts_t *yyscanner);")
                L.append("void *yyrealloc(void *p, size_t n, struct yyguts_t *yyscanner);")
                L.append("void yyfree(void *p, struct yyguts_t *yyscanner);")
        L.append("}")
        L.append("%{")
        if fl.cxx:
            L += self.cxx_class()
        if fl.nr or fl.r:
            if o.get("input", "yyinput_macro") == "yyinput_macro":
                if case.get("driver", {}).get("multi"):
                    L.append("#include <sched.h>")
                    L.append("#define YY_INPUT(buf,result,max_size) do { if ((%s->nev & 3) == 1) sched_yield(); "
                             "(result) = vf_read(%s, yyin, (buf), (size_t) (max_size)); } while (0)" % (C, C))
                else:
                    L.append("#define YY_INPUT(buf,result,max_size) do { (result) = vf_read(%s, yyin, "
                             "(buf), (size_t) (max_size)); } while (0)" % C)
            L.append("#define YY_FATAL_ERROR(msg) vf_fatal(%s, (msg))" % C)
        if "less3" in self.uses:
            L.append("static void vf_less3(int n%s);" % (", yyscan_t yyscanner" if fl.a0 else ""))
        if "bufhelpers" in self.uses:
            pa = ", yyscan_t yyscanner" if fl.a0 else ""
            p0 = "yyscan_t yyscanner" if fl.a0 else "void"
            for proto in ("vfb_create(int s, int src, int size%s)" % pa,
                          "vfb_switch(int s%s)" % pa, "vfb_push(int s%s)" % pa,
                          "vfb_pop(%s)" % p0, "vfb_dopop(%s)" % p0, "vfb_delete(int s%s)" % pa,
                          "vfb_scan_bytes(int s, int si%s)" % pa,
                          "vfb_scan_string(int s, int si%s)" % pa,
                          "vfb_scan_buffer(int s, int si, int ok%s)" % pa,
                          "vfb_flush(int s%s)" % pa, "vfb_reflush(int s%s)" % pa,
                          "vfb_delrestart(int src%s)" % pa, "vfb_delpush(int s%s)" % pa,
                          "vfb_delete_all(%s)" % p0):
                L.append("static void %s;" % proto)
        L.append("%}")
        opts = []
        if fl.r:
            opts.append("reentrant")
        if fl.c99:
            opts.append('emit="c99"')
            if o.get("input", "yyinput_macro") != "stdio":
                opts.append("noyyread")
        if fl.cxx:
            opts.append("c++")
            opts.append('yyclass="VfLexer"')
        if self.track_ln:
            opts.append("yylineno")
        if "stack" in self.uses:
            opts.append("stack")
        if "top" not in self.uses and "stack" in self.uses:
            opts.append("noyy_top_state")
        if o.get("ci"):
            opts.append(self.rng.choice(["case-insensitive", "caseless"]) if self.rng
                        else "case-insensitive")
        if o.get("posix"):
            opts.append("posix-compat")
        if o.get("bits") == 7 and o.get("bits_decl", True):
            opts.append("7bit")
        if o.get("interactive") is True:
            opts.append("interactive")
        elif o.get("interactive") is False:
            opts.append("batch")
        if o.get("always_interactive"):
            opts.append("always-interactive")
        if o.get("never_interactive"):
            opts.append("never-interactive")
        if o.get("use_read"):
            opts.append("read")
        if o.get("bufsize"):
            opts.append("bufsize=%d" % o["bufsize"])
        if o.get("yylmax"):
            opts.append("yylmax=%d" % o["yylmax"])
        if o.get("tables_file"):
            opts.append('tables-file="%s"' % o["tables_file"])
        if o.get("tables_verify"):
            opts.append("tables-verify")
        if o.get("prefix"):
            opts.append('prefix="%s"' % o["prefix"])
        if o.get("reject_opt"):
            opts.append("reject")
        if o.get("nodefault"):
            opts.append("nodefault")
        if o.get("ledger"):
            opts += ["noyyalloc", "noyyrealloc", "noyyfree"]
        for x in o.get("extra_options", []):
            opts.append(x)
        # the same options may be given on the command line instead (C02/C19: both
        # spellings must have the same effect)
        self.cli_args = []
        if o.get("opts_on_cli"):
            keep = []
            for x in opts:
                if x in CLI_OK:
                    self.cli_args.append("--" + x)
                elif x == 'emit="c99"':
                    self.cli_args.append("--emit=c99")
                elif x == "caseless":
                    self.cli_args.append("-i")
                else:
                    keep.append(x)
            opts = keep
        for x in opts:
            L.append("%%option %s" % x)
        if o.get("array") and not fl.cxx:
            if o.get("opts_on_cli"):
                self.cli_args.append("--array")
            else:
                L.append("%array")
        elif o.get("pointer_decl"):
            L.append("%pointer")
        xs = [n for n, ex in case["scs"][1:] if ex]
        ss = [n for n, ex in case["scs"][1:] if not ex]
        # keep declaration order = numbering
        for n, ex in case["scs"][1:]:
            L.append("%s %s" % ("%x" if ex else "%s", n))
        for name, node in case.get("defs", []):
            L.append("%s\t%s" % (name, self.def_text(node)))
        L.append("%%")
        # line (1-based) on which the pattern of rule i starts / ends in the specification
        base = sum(x.count("\n") + 1 for x in L)
        starts = []
        acc = base
        for x in body:
            starts.append(acc + 1)
            acc += x.count("\n") + 1
        self.rule_first_line = {}
        self.rule_last_line = {}
        for i, (bi, nl) in self._rule_pos.items():
            self.rule_first_line[i] = starts[bi]
            self.rule_last_line[i] = starts[bi] + nl
        L += body
        L.append("%%")
        L += drv
        return "\n".join(L) + "\n"

    def def_text(self, node):
        # a definition is one line; trailing blanks are stripped by flex, so it must not
        # end in an escaped blank
        self.pr.oneline = True
        try:
            t = self.pr.pattern(node)
        finally:
            self.pr.oneline = False
        if t.endswith("\\ ") or t.endswith("\\\t"):
            t = "(" + t + ")"
        return t

    # ------------------------------------------------------------- driver (section 3)
    def cxx_class(self):
        """Subclass of yyFlexLexer: input, output, errors and yywrap go to the harness."""
        case = self.case
        L = ["#include <new>", "#include <sstream>", "#include <string>",
             "class VfLexer : public yyFlexLexer {", "public:",
             "\tVfLexer() : yyFlexLexer() {}",
             "\tVfLexer(std::istream &i, std::ostream &o) : yyFlexLexer(i, o) {}",
             # an object may be built in any storage: what a constructor leaves unset shows up
             "\tstatic VfLexer *vf_make(int how) { void *m = ::operator new(sizeof(VfLexer)); "
             "memset(m, 0xA5, sizeof(VfLexer)); "
             "if (how & 1) return new (m) VfLexer(std::cin, std::cout); return new (m) VfLexer(); }",
             "\tvirtual int yylex();"]
        if not self.o.get("cxx_stream"):
            L.append("\tvirtual int LexerInput(char *buf, int max_size) { int r = vf_read_idx(%s, "
                     "%s->cur_src, buf, (size_t) max_size); if (r < 0) LexerError(\"input in flex "
                     "scanner failed\"); return r; }" % (C, C))
        else:
            # the class's own LexerInput() reads from a std::istream holding the source
            L.append("\tstd::istringstream vf_is;")
            L.append("\tvoid vf_stream(const unsigned char *d, size_t n) { vf_is.clear(); "
                     "vf_is.str(std::string((const char *) d, n)); switch_streams(&vf_is, 0); }")
        L += [
             "\tvirtual void LexerOutput(const char *buf, int size) { vf_D(%s, buf, "
             "(size_t) size); }" % C,
             "\tvirtual void LexerError(const char *msg) { vf_fatal(%s, msg); }" % C,
             "\tvoid vf_begin(int s) { yybegin(s); }", "\tint vf_start() { return yystart(); }"]
        if "stack" in self.uses:
            L += ["\tvoid vf_push(int s) { yy_push_state(s); }", "\tvoid vf_pop() { yy_pop_state(); }"]
            if "top" in self.uses:
                L.append("\tint vf_top() { return yy_top_state(); }")
        L.append("\tvirtual int yywrap() {")
        L.append("\t\tstruct vf_ctx *c = %s; int k = c->wrapk++;" % C)
        L.append("\t\tswitch (k) {")
        for i, op in enumerate(case.get("wrap", [])):
            if op[0] == "stop":
                L.append("\t\tcase %d: vf_W(c, k, 1); return 1;" % i)
            elif op[0] == "next":
                L.append("\t\tcase %d: vf_W(c, k, 0); vf_rewind(c, %d); c->cur_src = %d; return 0;"
                         % (i, op[1], op[1]))
            else:
                raise ValueError("cxx flavour: unsupported yywrap op %r" % (op,))
        L.append("\t\tdefault: vf_W(c, k, 1); return 1;")
        L.append("\t\t}")
        L.append("\t}")
        L.append("};")
        return L

    def driver_cxx(self):
        case, o = self.case, self.o
        d = case.get("driver", {})
        L = []
        if o.get("ledger"):
            L.append("void *yyalloc(yy_size_t n) { return vf_alloc(%s, n); }" % C)
            L.append("void *yyrealloc(void *p, yy_size_t n) { return vf_realloc(%s, p, n); }" % C)
            L.append("void yyfree(void *p) { vf_free(%s, p); }" % C)
        L.append("int yyFlexLexer::yywrap() { return 1; }")
        L.append("int main(int argc, char **argv) {")
        L.append("\tstatic struct vf_ctx ctx; int v, ncalls = 0, endk = 0; VfLexer *lexer;")
        L.append("\tif (argc < 3) return 93;")
        L.append("\tvf_load(&ctx, argv[1], argv[2]); vf_tls = &ctx; vf_install();")
        L.append("\tlexer = VfLexer::vf_make(%d);" % ((case["seed"] >> 3) & 1))
        for op in d.get("init", [("open", 0)]):
            if op[0] in ("push", "pop", "top"):
                L += self.ops_c([op], "\t", False)     # (start-condition calls before the first yylex())
                continue
            L += self.xop_c(op, "\t", False)
        after = d.get("after", [])
        atend = d.get("atend", [])
        L.append("\tfor (;;) {")
        L.append("\t\tif (ncalls >= %d) break;" % d.get("maxcalls", 100000))
        L.append("\t\tncalls++;")
        L.append("\t\tv = lexer->yylex();")
        L.append("\t\tvf_R(&ctx, v, lexer->vf_start());")
        L.append("\t\tif (v == 0) {")
        L.append("\t\t\tswitch (endk++) {")
        for i, ops in enumerate(atend):
            L.append("\t\t\tcase %d:" % i)
            if ops is None:
                L.append("\t\t\t\tgoto done;")
            else:
                for op in ops:
                    L += self.xop_c(op, "\t\t\t\t", False)
                L.append("\t\t\t\tcontinue;")
        L.append("\t\t\tdefault: goto done;")
        L.append("\t\t\t}")
        L.append("\t\t}")
        if after:
            L.append("\t\tswitch ((ncalls - 1) %% %d) {" % len(after))
            for i, ops in enumerate(after):
                L.append("\t\tcase %d:" % i)
                L += self.ops_c(ops, "\t\t\t", False)
                L.append("\t\t\tbreak;")
            L.append("\t\t}")
        L.append("\t}")
        L.append("done:")
        if o.get("destroy", True):
            L.append("\tdelete lexer;")
        if o.get("ledger"):
            L.append("\tvf_ledger_report(&ctx);")
        L.append("\tvf_ev1(&ctx, \"Z\");")
        L.append("\tvf_finish(&ctx, 0);")
        L.append("}")
        return L

    def driver_multi(self):
        """Several instances of one scanner in one program: argv = mode seed N (pack log)*N.
        mode 'i': one thread, yylex calls interleaved by a seeded schedule;
        mode 't': one thread per instance (run under ThreadSanitizer)."""
        case, o, fl = self.case, self.o, self.fl
        L = ["#include <pthread.h>", "#include <sched.h>"]
        if fl.cxx:
            L.append("int yyFlexLexer::yywrap() { return 1; }")
        else:
            L.append("int yywrap(yyscan_t yyscanner) { struct vf_ctx *c = %s; (void) yyscanner; "
                     "vf_W(c, c->wrapk++, 1); return 1; }" % C)
        if fl.c99:
            L.append("static int yyread(char *buf, size_t max_size, struct yyguts_t *yyscanner) {")
            L.append("\tif ((%s->nev & 3) == 1) sched_yield();" % C)
            L.append("\treturn vf_read(%s, yyget_in(yyscanner), buf, max_size);" % C)
            L.append("}")
        if fl.r:
            L.append("static int vf_start_r(yyscan_t yyscanner) { "
                     "struct yyguts_t *yyg = (struct yyguts_t *) yyscanner; return yystart(); }")
        L.append("#define VF_MAXINST 32")
        L.append("static struct vf_ctx *vf_inst[VF_MAXINST]; static int vf_done[VF_MAXINST];")
        L.append("static int vf_inside, vf_maxinside; static pthread_barrier_t vf_bar;")
        if fl.cxx:
            L.append("static VfLexer *vf_lex[VF_MAXINST];")
            call = "vf_lex[i]->yylex()"
            start = "vf_lex[i]->vf_start()"
        else:
            L.append("static yyscan_t vf_scn[VF_MAXINST], vf_tscn;")
            call = "yylex(vf_scn[i])"
            start = ("yystart(vf_scn[i])" if fl.c99 else "vf_start_r(vf_scn[i])")
        L.append("static int vf_step(int i) { volatile int v; int n; %s = vf_inst[i];" % C)
        L.append("\tif (setjmp(vf_inst[i]->jmp)) { __atomic_sub_fetch(&vf_inside, 1, __ATOMIC_SEQ_CST); "
                 "vf_inst[i]->finished = 1; return 0; }")
        L.append("\tn = __atomic_add_fetch(&vf_inside, 1, __ATOMIC_SEQ_CST);")
        L.append("\t{ int m = __atomic_load_n(&vf_maxinside, __ATOMIC_SEQ_CST); while (n > m && "
                 "!__atomic_compare_exchange_n(&vf_maxinside, &m, n, 0, __ATOMIC_SEQ_CST, __ATOMIC_SEQ_CST)) ; }")
        L.append("\tv = %s;" % call)
        L.append("\t__atomic_sub_fetch(&vf_inside, 1, __ATOMIC_SEQ_CST);")
        L.append("\tvf_R(vf_inst[i], v, %s); return v; }" % start)
        # creation and destruction of an instance; in thread mode both happen on the instance's
        # own thread, after the start barrier, so that they overlap with the other threads
        L.append("static int vf_create(int i) { %s = vf_inst[i];" % C)
        if fl.cxx:
            L.append("\tvf_lex[i] = VfLexer::vf_make(i);")
            L.append("\tvf_X(vf_inst[i], \"open 0\"); vf_inst[i]->cur_src = 0; return 0; }")
        else:
            L.append("\tif (i & 1) { if (yylex_init_extra(vf_inst[i], &vf_scn[i]) != 0) return 92; }")
            L.append("\telse if (yylex_init(&vf_scn[i]) != 0) return 92;")
            L.append("\tvf_X(vf_inst[i], \"open 0\"); yyset_in(vf_inst[i]->src[0].fp, vf_scn[i]); "
                     "yyset_out(vf_inst[i]->out, vf_scn[i]); return 0; }")
        L.append("static void vf_destroy(int i) { %s = vf_inst[i]; if (vf_inst[i]->finished) return;" % C)
        if fl.cxx:
            L.append("\tdelete vf_lex[i]; }")
        else:
            L.append("\tif ((i & 1) && (void *) yyget_extra(vf_scn[i]) != (void *) vf_inst[i]) "
                     "vf_ev1(vf_inst[i], \"F extra-of-another-instance\");")
            L.append("\tyylex_destroy(vf_scn[i]); }")
        L.append("static void *vf_thread(void *a) { int i = (int) (long) a; "
                 "pthread_barrier_wait(&vf_bar); "
                 "if (vf_create(i)) { vf_ev1(vf_inst[i], \"F init\"); return 0; } "
                 "while (vf_step(i) != 0) { if ((vf_inst[i]->nev & 7) == 3) sched_yield(); } "
                 "if (!vf_inst[i]->finished) vf_ev1(vf_inst[i], \"Z\"); "
                 "vf_destroy(i); return 0; }")
        L.append("int main(int argc, char **argv) {")
        L.append("\tint n, i, left; unsigned long rs; pthread_t th[VF_MAXINST];")
        L.append("\tif (argc < 4) return 93;")
        L.append("\trs = strtoul(argv[2], 0, 0); n = atoi(argv[3]); if (n < 1 || n > VF_MAXINST || argc < 4 + 2 * n) return 93;")
        L.append("\tvf_install();")
        if o.get("tables_file") and not fl.cxx:
            # serialized tables are shared by all instances of the scanner: loaded once, through a
            # scanner object of their own, and released after the last instance is gone
            L.append("\t{ const char *vf_p = getenv(\"VF_TABLES\"); FILE *vf_f = vf_p ? fopen(vf_p, \"rb\") : 0; "
                     "if (!vf_f || yylex_init(&vf_tscn) || yytables_fload(vf_f, vf_tscn)) return 91; fclose(vf_f); }")
        L.append("\tfor (i = 0; i < n; ++i) {")
        L.append("\t\tvf_inst[i] = (struct vf_ctx *) calloc(1, sizeof(struct vf_ctx));")
        L.append("\t\tvf_load(vf_inst[i], argv[4 + 2 * i], argv[5 + 2 * i]); vf_inst[i]->use_jmp = 1;")
        L.append("\t\tif (argv[1][0] != 't' && vf_create(i)) return 92;")
        L.append("\t}")
        L.append("\tif (argv[1][0] == 't') {")
        L.append("\t\tpthread_barrier_init(&vf_bar, 0, (unsigned) n);")
        L.append("\t\tfor (i = 0; i < n; ++i) pthread_create(&th[i], 0, vf_thread, (void *) (long) i);")
        L.append("\t\tfor (i = 0; i < n; ++i) pthread_join(th[i], 0);")
        L.append("\t} else {")
        L.append("\t\tleft = n;")
        L.append("\t\twhile (left > 0) {")
        L.append("\t\t\tint burst; rs = rs * 6364136223846793005ul + 1442695040888963407ul;")
        L.append("\t\t\ti = (int) ((rs >> 33) % (unsigned long) n); burst = 1 + (int) ((rs >> 20) & 3);")
        L.append("\t\t\tif (argv[1][0] == 'r') { static int rr; i = rr++ % n; burst = 1; }")
        L.append("\t\t\twhile (burst-- > 0 && !vf_done[i]) if (vf_step(i) == 0) { vf_done[i] = 1; left--; "
                 "if (!vf_inst[i]->finished) vf_ev1(vf_inst[i], \"Z\"); }")
        L.append("\t\t}")
        L.append("\t}")
        L.append("\tif (argv[1][0] != 't') for (i = 0; i < n; ++i) vf_destroy(i);")
        L.append("\t{ char b[64]; snprintf(b, sizeof b, \"# max_concurrent %d\\n\", vf_maxinside); "
                 "vf_puts(vf_inst[0], b); }")
        if o.get("tables_file") and not fl.cxx:
            L.append("\tyytables_destroy(vf_tscn); yylex_destroy(vf_tscn);")
        L.append("\tvf_flush_all();")
        L.append("\treturn 0;")
        L.append("}")
        return L

    def driver_c(self):
        case, o, fl = self.case, self.o, self.fl
        if case.get("driver", {}).get("multi"):
            return self.driver_multi()
        if fl.cxx:
            return self.driver_cxx()
        d = case.get("driver", {})
        L = []
        a0 = "void" if fl.nr else "yyscan_t yyscanner"
        if fl.r:
            L.append("static void vf_begin_r(int s, yyscan_t yyscanner) { "
                     "struct yyguts_t *yyg = (struct yyguts_t *) yyscanner; yybegin(s); }")
            L.append("static int vf_start_r(yyscan_t yyscanner) { "
                     "struct yyguts_t *yyg = (struct yyguts_t *) yyscanner; return yystart(); }")
        if fl.c99 and o.get("input", "yyinput_macro") != "stdio":
            L.append("static int yyread(char *buf, size_t max_size, struct yyguts_t *yyscanner) {")
            L.append("\treturn vf_read(%s, yyget_in(yyscanner), buf, max_size);" % C)
            L.append("}")
        if "less3" in self.uses:
            if fl.nr:
                L.append("static void vf_less3(int n) { yyless(n); }")
            elif fl.r:
                L.append("static void vf_less3(int n, yyscan_t yyscanner) { "
                         "struct yyguts_t *yyg = (struct yyguts_t *) yyscanner; yyless(n); }")
            else:
                L.append("static void vf_less3(int n, yyscan_t yyscanner) { yyless(n, yyscanner); }")
        if o.get("ledger"):
            sz = "size_t" if fl.c99 else "yy_size_t"
            ext = ", %s" % ("struct yyguts_t *yyscanner" if fl.c99 else "yyscan_t yyscanner") \
                if not fl.nr else ""
            L.append("void *yyalloc(%s n%s) { return vf_alloc(%s, n); }" % (sz, ext, C))
            L.append("void *yyrealloc(void *p, %s n%s) { return vf_realloc(%s, p, n); }" % (
                sz, ext, C))
            L.append("void yyfree(void *p%s) { vf_free(%s, p); }" % (ext, C))
        L.append("@@BUFHELPERS@@")
        # yywrap
        ws = case.get("wrap", [])
        L.append("int yywrap(%s) {" % a0)
        L.append("\tstruct vf_ctx *c = %s; int k = c->wrapk++;" % C)
        L.append("\tswitch (k) {")
        for i, op in enumerate(ws):
            L.append("\tcase %d:" % i)
            if op[0] == "stop":
                L.append("\t\tvf_W(c, k, 1); return 1;")
            elif op[0] == "soft":
                # the same stream goes on after having reported end of input (see pack())
                L.append("\t\tvf_W(c, k, 0); return 0;")
            elif op[0] == "next":
                L.append("\t\tvf_W(c, k, 0); vf_rewind(c, %d);" % op[1])
                if fl.nr:
                    L.append("\t\tyyin = c->src[%d].fp;" % op[1])
                else:
                    L.append("\t\tyyset_in(c->src[%d].fp, yyscanner);" % op[1])
                L.append("\t\treturn 0;")
            elif op[0] == "switch":
                L.append("\t\tvf_W(c, k, 0);")
                L.append("\t\t%s;" % fl.call("yy_switch_to_buffer",
                                             "(yybuffer) c->slot[%d]" % op[1]))
                L.append("\t\treturn 0;")
            elif op[0] == "gswitch_or_pop":
                # keep the exhausted buffer and continue in slot op[1] if that one is usable,
                # otherwise behave like "pop"
                L.append("\t\tif (c->slot[%d] && !vfb_onstack(%d)) { vf_W(c, k, 0); %s; "
                         "c->bstk[c->bdepth - 1] = %d; return 0; }" % (
                             op[1], op[1], fl.call("yy_switch_to_buffer",
                                                   "(yybuffer) c->slot[%d]" % op[1]), op[1]))
                L.append("\t\t{ int more = c->bdepth > 1; vf_W(c, k, more ? 0 : 1); "
                         "if (more) { vfb_dopop(%s); return 0; } return 1; }" % fl.a0)
                self.uses.add("bufhelpers")
            elif op[0] == "pop":
                L.append("\t\t{ int more = c->bdepth > 1; vf_W(c, k, more ? 0 : 1); "
                         "if (more) { vfb_dopop(%s); return 0; } return 1; }" % fl.a0)
                self.uses.add("bufhelpers")
            else:
                raise ValueError(op)
        L.append("\tdefault: vf_W(c, k, 1); return 1;")
        L.append("\t}")
        L.append("}")
        # main
        L.append("int main(int argc, char **argv) {")
        L.append("\tstatic struct vf_ctx ctx; int v, ncalls = 0;")
        if not fl.nr:
            L.append("\tyyscan_t yyscanner;")
        nsess = int(d.get("sessions", 1))
        L.append("\tint sess;")
        L.append("\tif (argc < 3) return 93;")
        L.append("\tvf_load(&ctx, argv[1], argv[2]); vf_tls = &ctx; vf_install();")
        L.append("\tfor (sess = 0; sess < %d; ++sess) {" % nsess)
        L.append("\tif (sess) { char vf_b[32]; snprintf(vf_b, sizeof vf_b, \"session %d\", sess); "
                 "vf_X(&ctx, vf_b); vf_reset_session(&ctx); ncalls = 0; }")
        if fl.r or fl.c99:
            L.append("\tif (yylex_init(&yyscanner) != 0) { vf_evi(&ctx, \"F init\", errno); "
                     "vf_finish(&ctx, 41); }")
        for op in d.get("init", [("open", 0)]):
            if op[0] in ("push", "pop", "top"):
                L += self.ops_c([op], "\t", False)     # (start-condition calls before the first yylex())
                continue
            L += self.xop_c(op, "\t", False)
        after = d.get("after", [])
        atend = d.get("atend", [])
        maxcalls = d.get("maxcalls", 100000)
        L.append("\tint endk = 0;")
        L.append("\tfor (;;) {")
        L.append("\t\tif (ncalls >= %d) break;" % maxcalls)
        L.append("\t\tncalls++;")
        L.append("\t\tv = %s;" % ("yylex()" if fl.nr else "yylex(yyscanner)"))
        L.append("\t\tvf_R(&ctx, v, %s);" % self.drv_start())
        L.append("\t\tif (v == 0) {")
        L.append("\t\t\tswitch (endk++) {")
        for i, ops in enumerate(atend):
            L.append("\t\t\tcase %d:" % i)
            if ops is None:
                L.append("\t\t\t\tgoto done;")
            else:
                for op in ops:
                    L += self.xop_c(op, "\t\t\t\t", False)
                L.append("\t\t\t\tcontinue;")
        L.append("\t\t\tdefault: goto done;")
        L.append("\t\t\t}")
        L.append("\t\t}")
        if after:
            L.append("\t\tswitch ((ncalls - 1) %% %d) {" % len(after))
            for i, ops in enumerate(after):
                L.append("\t\tcase %d:" % i)
                L += self.ops_c(ops, "\t\t\t", False)
                L.append("\t\t\tbreak;")
            L.append("\t\t}")
        L.append("\t}")
        L.append("done:")
        for op in d.get("fini", []):
            L += self.xop_c(op, "\t", False)
        if o.get("destroy", True):
            L.append("\t%s;" % ("yylex_destroy()" if fl.nr else "yylex_destroy(yyscanner)"))
        L.append("\tvf_free_slotmem(&ctx);")
        if o.get("ledger"):
            L.append("\tvf_ledger_report(&ctx);")
        L.append("\t}")
        L.append("\tvf_ev1(&ctx, \"Z\");")
        L.append("\tvf_finish(&ctx, 0);")
        L.append("}")
        i = L.index("@@BUFHELPERS@@")
        L[i:i + 1] = self.buffer_helpers() if "bufhelpers" in self.uses else []
        return L

    def cur_buffer(self):
        """C expression for the scanner's current buffer (NULL if there is none)."""
        fl = self.fl
        if fl.c99:
            return "yy_current_buffer(yyscanner)"
        if fl.a0:
            g = "((struct yyguts_t *) yyscanner)"
            return "(%s->yy_buffer_stack ? %s->yy_buffer_stack[%s->yy_buffer_stack_top] : 0)" % (g, g, g)
        return "YY_CURRENT_BUFFER"

    def buffer_helpers(self):
        """Guarded buffer operations: each is executed only when it is valid in the current
        state (slot alive / not on the stack / ...), by rules the model applies identically,
        so random histories stay inside what the manual permits."""
        fl = self.fl
        P = "yyscan_t yyscanner" if fl.a0 else "void"
        PA = ", yyscan_t yyscanner" if fl.a0 else ""
        c = C
        call = fl.call
        H = []
        H.append("static int vfb_onstack(int s) { int i; for (i = 0; i < %s->bdepth; ++i) "
                 "if (%s->bstk[i] == s) return 1; return 0; }" % (c, c))
        H.append("static int vfb_srcused(int src) { int i; for (i = 0; i < VF_MAXSLOT; ++i) "
                 "if (%s->slot[i] && %s->slotsrc[i] == src) return 1; return 0; }" % (c, c))
        H.append("static void vfb_skip(const char *w) { char b[64]; snprintf(b, sizeof b, "
                 "\"skip %%s\", w); vf_X(%s, b); }" % c)
        H.append("static void vfb_free(int s) { %s->slot[s] = 0; %s->slotsrc[s] = -1; "
                 "if (%s->slotmem[s]) { free(%s->slotmem[s]); %s->slotmem[s] = 0; } }"
                 % (c, c, c, c, c))
        H.append("static void vfb_create(int s, int src, int size%s) { char b[64]; "
                 "if (%s->slot[s] || vfb_srcused(src)) { vfb_skip(\"create\"); return; } "
                 "snprintf(b, sizeof b, \"create %%d %%d\", s, src); vf_X(%s, b); vf_rewind(%s, src); "
                 "%s->slot[s] = %s; %s->slotsrc[s] = src; }" % (
                     PA, c, c, c, c, call("yy_create_buffer",
                                       "%s->src[src].fp, size ? size : YY_BUF_SIZE" % c), c))
        H.append("static void vfb_switch(int s%s) { char b[64]; "
                 "if (!%s->slot[s] || vfb_onstack(s)) { vfb_skip(\"switch\"); return; } "
                 "snprintf(b, sizeof b, \"switch %%d\", s); vf_X(%s, b); %s; "
                 "%s->bstk[%s->bdepth - 1] = s; }" % (
                     PA, c, c, call("yy_switch_to_buffer", "(yybuffer) %s->slot[s]" % c), c, c))
        H.append("static void vfb_push(int s%s) { char b[64]; "
                 "if (!%s->slot[s] || vfb_onstack(s) || %s->bdepth >= VF_MAXSLOT) "
                 "{ vfb_skip(\"push\"); return; } "
                 "snprintf(b, sizeof b, \"bpush %%d\", s); vf_X(%s, b); %s; "
                 "%s->bstk[%s->bdepth++] = s; }" % (
                     PA, c, c, c, call("yypush_buffer_state", "(yybuffer) %s->slot[s]" % c),
                     c, c))
        H.append("static void vfb_dopop(%s) { int s = %s->bstk[%s->bdepth - 1]; %s; "
                 "%s->bdepth--; vfb_free(s); }" % (P, c, c, call("yypop_buffer_state"), c))
        H.append("static void vfb_pop(%s) { if (%s->bdepth <= 1) { vfb_skip(\"pop\"); return; } "
                 "vfb_dopop(%s); vf_X(%s, \"bpop\"); }" % (P, c, fl.a0, c))
        H.append("static void vfb_delete(int s%s) { char b[64]; "
                 "if (!%s->slot[s] || vfb_onstack(s)) { vfb_skip(\"delete\"); return; } "
                 "snprintf(b, sizeof b, \"delete %%d\", s); vf_X(%s, b); %s; vfb_free(s); }" % (
                     PA, c, c, call("yy_delete_buffer", "(yybuffer) %s->slot[s]" % c)))
        for nm, arg in (("scan_bytes", "vf_t, (int) vf_n"), ("scan_string", "vf_t")):
            H.append("static void vfb_%s(int s, int si%s) { char b[64]; size_t vf_n = %s->strn[si]; "
                     "char *vf_t; if (%s->slot[s]) { vfb_skip(\"%s\"); return; } "
                     "snprintf(b, sizeof b, \"%s %%d %%d\", s, si); vf_X(%s, b); "
                     "vf_t = (char *) malloc(vf_n + 1); memcpy(vf_t, %s->str[si], vf_n); vf_t[vf_n] = 0; "
                     "%s->slot[s] = %s; %s->slotsrc[s] = -1; %s->bstk[%s->bdepth - 1] = s; "
                     "memset(vf_t, 'Z', vf_n); free(vf_t); }" % (
                         nm, PA, c, c, nm, nm, c, c, c, call("yy_" + nm, arg), c, c, c))
        H.append("static void vfb_scan_buffer(int s, int si, int ok%s) { char b[64]; "
                 "size_t n = %s->strn[si]; char *m; void *r; "
                 "if (%s->slot[s]) { vfb_skip(\"scan_buffer\"); return; } "
                 "m = (char *) malloc(n + 2); memcpy(m, %s->str[si], n); "
                 "m[n] = ok ? 0 : 'x'; m[n + 1] = 0; r = %s; "
                 "snprintf(b, sizeof b, \"scan_buffer %%d %%d %%s\", s, si, r ? \"ok\" : \"null\"); "
                 "vf_X(%s, b); if (r) { %s->slot[s] = r; %s->slotsrc[s] = -1; %s->slotmem[s] = m; "
                 "%s->bstk[%s->bdepth - 1] = s; } else free(m); }" % (
                     PA, c, c, c, call("yy_scan_buffer", "m, n + 2"), c, c, c, c, c, c))
        H.append("static void vfb_delete_all(%s) { int s; for (s = 0; s < VF_MAXSLOT; ++s) "
                 "if (%s->slot[s] && !vfb_onstack(s)) { %s; vfb_free(s); } vf_X(%s, \"delete_all\"); }" % (
                     P, c, call("yy_delete_buffer", "(yybuffer) %s->slot[s]" % c), c))
        H.append("static void vfb_flush(int s%s) { char b[64]; "
                 "if (!%s->slot[s]) { vfb_skip(\"flush\"); return; } "
                 "if (%s->slotsrc[s] < 0) snprintf(b, sizeof b, \"flush %%d -\", s); "
                 "else snprintf(b, sizeof b, \"flush %%d %%ld\", s, "
                 "(long) %s->src[%s->slotsrc[s]].pos); "
                 "vf_X(%s, b); %s; }" % (
                     PA, c, c, c, c, c, call("yy_flush_buffer", "(yybuffer) %s->slot[s]" % c)))
        # the current buffer is deleted, then yyrestart() has to make one for the file it gets
        H.append("static void vfb_delrestart(int src%s) { char b[64]; int i, s = %s->bstk[%s->bdepth - 1]; "
                 "for (i = 0; i < VF_MAXSLOT; ++i) if (i != s && %s->slot[i] && %s->slotsrc[i] == src) "
                 "{ vfb_skip(\"delrestart\"); return; } "
                 "snprintf(b, sizeof b, \"delrestart %%d %%d\", s, src); vf_X(%s, b); "
                 "%s; vfb_free(s); vf_rewind(%s, src); %s; "
                 "%s->slot[s] = (void *) %s; %s->slotsrc[s] = src; }" % (
                     PA, c, c, c, c, c, call("yy_delete_buffer", "(yybuffer) %s->slot[s]" % c), c,
                     call("yyrestart", "%s->src[src].fp" % c), c, self.cur_buffer(), c))
        H.append("static void vfb_delpush(int s%s) { char b[64]; int cur = %s->bstk[%s->bdepth - 1]; "
                 "if (!%s->slot[s] || vfb_onstack(s)) { vfb_skip(\"delpush\"); return; } "
                 "snprintf(b, sizeof b, \"delpush %%d %%d\", cur, s); vf_X(%s, b); "
                 "%s; vfb_free(cur); %s; %s->bstk[%s->bdepth - 1] = s; }" % (
                     PA, c, c, c, c, call("yy_delete_buffer", "(yybuffer) %s->slot[cur]" % c),
                     call("yypush_buffer_state", "(yybuffer) %s->slot[s]" % c), c, c))
        # the file behind a buffer is read again from its start: rewind + yy_flush_buffer
        H.append("static void vfb_reflush(int s%s) { char b[64]; "
                 "if (!%s->slot[s] || %s->slotsrc[s] < 0) { vfb_skip(\"reflush\"); return; } "
                 "vf_rewind(%s, %s->slotsrc[s]); snprintf(b, sizeof b, \"reflush %%d\", s); "
                 "vf_X(%s, b); %s; }" % (
                     PA, c, c, c, c, c, call("yy_flush_buffer", "(yybuffer) %s->slot[s]" % c)))
        return H


def pack(case, sched=None, flags=0, alloc_fail_at=0, read_faults=(), bufsize=0):
    """Binary input pack for the harness runtime (see vf_load)."""
    sched = list(sched or [])
    b = [struct.pack("<IIII", case["seed"] & 0xFFFFFFFF,
                     case.get("budget", {}).get("events", 600), flags, len(sched))]
    for s in sched:
        b.append(struct.pack("<I", s))
    srcs = case["sources"]
    if any(op[0] == "soft" for op in case.get("wrap", [])):
        # yywrap op ("soft", j): the stream that has just ended goes on with the bytes of
        # source j (the model sees two sources, the scanner one that reports end of input in
        # the middle)
        srcs = [bytes(x) for x in srcs]
        read_faults = list(read_faults)
        cur = 0
        for op in case["wrap"]:
            if op[0] == "soft":
                read_faults.append((cur, len(srcs[cur]), 0xFFFF))
                srcs[cur] = srcs[cur] + bytes(case["sources"][op[1]])
            elif op[0] == "next":
                cur = op[1]
            else:
                break
    b.append(struct.pack("<I", len(srcs)))
    for s in srcs:
        b.append(struct.pack("<I", len(s)) + bytes(s))
    strs = case.get("strings", [])
    b.append(struct.pack("<I", len(strs)))
    for s in strs:
        b.append(struct.pack("<I", len(s)) + bytes(s))
    b.append(struct.pack("<I", alloc_fail_at))
    b.append(struct.pack("<I", bufsize))
    b.append(struct.pack("<I", len(read_faults)))
    for s, at, en in read_faults:
        b.append(struct.pack("<III", s, at, en))
    return b"".join(b)
