"""Executable reference model of a flex-generated scanner, written from the manual only.

The model is *co-simulated* with an observed event log: it computes the next expected
event, compares it with the observed one and reports the first divergence.  Where the
manual leaves several outcomes open (head/trail split of a both-variable trailing
context, the end value of yyinput, buffered-byte count at a flush) the observed value
is accepted iff it lies in the documented set, and the model continues from it.

Event lines (tokens separated by blanks) -- the same text the C harness writes:
  T <rule> <yyleng> <hex(yytext)|-> <yystart> <yylineno|-> <delivered|->   action entered
  L <n> <yyleng> <hex>            after yyless(n)
  I <value>                       yyinput() returned value (-1 = end value)
  U <hex>                         about to yyunput these bytes (read back in this order)
  M                               yymore()
  J                               about to REJECT
  B <sc>  P <sc>  O <sc>  Q <top> yybegin / push (new) / pop (new current) / top_state
  Y <v>                           yysetbol(v)
  E <sc> <lineno|->               <<EOF>> action entered in condition sc
  W <k> <ret>                     yywrap called for the k-th time, returned ret
  R <val> <sc>                    yylex returned val
  X <op> ...                      driver / buffer operation (see Model.do_x)
  F <kind>                        fatal error hook fired (kind: jam|underflow|pushback|
                                  toobig|reject_ovf|nomem|other)
  Z                               end of run (harness finished normally)
"""
from . import pat, util

MAXEV = 4000


class Divergence(Exception):
    def __init__(self, idx, expected, observed, why=""):
        Exception.__init__(self, "event %d: expected %r observed %r %s" % (
            idx, expected, observed, why))
        self.idx = idx
        self.expected = expected
        self.observed = observed
        self.why = why


class Stop(Exception):
    """Run ended (budget, fatal, end of driver)."""


class OutOfDomain(Exception):
    """The run reached a situation whose outcome the manual does not define; the rest of
    the observed log is not judged."""


class Automaton:
    """Lazy subset automaton over the rules active in one (start condition, bol) pair."""

    def __init__(self, rs, sc, bol):
        self.rs = rs
        nfa = self.nfa = pat.NFA()
        self.acc = {}          # nfa accept state -> rule index (0-based position)
        start = nfa.new()
        for ri, r in enumerate(rs.rules):
            if not rs.active(r, sc, bol):
                continue
            full = r["pat"] if r.get("trail") is None else ("cat", [r["pat"], r["trail"]])
            a, b = pat.build(full, nfa, rs.ctx)
            nfa.add_eps(start, a)
            self.acc[b] = ri
        if rs.default_rule:
            a, b = nfa.new(), nfa.new()
            nfa.add_edge(a, frozenset(range(256)), b)
            nfa.add_eps(start, a)
            self.acc[b] = len(rs.rules)       # default rule = last
        self.ids = {}
        self.sets = []
        self.accl = []
        self.trans = []
        self.hasout = []
        self.start = self.intern(pat.eclose(nfa, [start]))

    def intern(self, fs):
        i = self.ids.get(fs)
        if i is None:
            i = len(self.sets)
            self.ids[fs] = i
            self.sets.append(fs)
            self.accl.append(sorted(self.acc[s] for s in fs if s in self.acc))
            self.trans.append({})
            self.hasout.append(any(cs for s in fs for cs, _ in self.nfa.edges[s]))
        return i

    def step(self, st, c):
        t = self.trans[st].get(c)
        if t is None:
            fs = pat.step(self.nfa, self.sets[st], c)
            t = self.intern(fs) if fs else -1
            self.trans[st][c] = t
        return t

    def scan(self, data, pos, want_all=False):
        """Return (cands, examined): cands = list of (length, rule index) by decreasing
        length then increasing rule (only the best unless want_all); examined = number of
        bytes looked at from pos (a byte past the end of data counts as one: the EOF)."""
        st = self.start
        n = len(data)
        i = pos
        hits = []
        if self.accl[st]:
            hits.append((0, self.accl[st]))
        while True:
            if not self.hasout[st]:
                examined = i - pos
                break
            if i >= n:
                examined = i - pos + 1
                break
            st = self.step(st, data[i])
            i += 1
            if st < 0:
                examined = i - pos
                break
            if self.accl[st]:
                hits.append((i - pos, self.accl[st]))
        cands = []
        for ln, rl in reversed(hits):
            if ln == 0:
                continue        # flex never accepts an empty match
            for r in rl:
                cands.append((ln, r))
                if not want_all:
                    return cands, examined
        return cands, examined


class RuleSet:
    """Static meaning of a specification."""

    def __init__(self, case):
        o = case["opts"]
        self.case = case
        self.scs = case["scs"]            # [(name, exclusive)]  index 0 = INITIAL
        self.rules = case["rules"]
        self.ctx = pat.Ctx(csize=128 if o.get("bits") == 7 else 256,
                           ci=bool(o.get("ci")), posix=bool(o.get("posix")),
                           lex=bool(o.get("lex")),
                           defs=dict((n, d) for n, d in case.get("defs", [])))
        self.default_rule = not o.get("nodefault")
        self.auts = {}
        self.heads = {}
        # '|' chains: owner of rule i = first following rule whose action is not '|'
        self.owner = list(range(len(self.rules) + 1))
        for i in range(len(self.rules) - 1, -1, -1):
            if self.rules[i]["act"] == "|":
                self.owner[i] = self.owner[i + 1]
        # EOF rule per start condition
        self.eof = {}
        for e in case.get("eofs", []):
            scs = e["scs"]
            if scs is None:
                tgt = [i for i in range(len(self.scs)) if i not in self.eof]
            elif scs == "*":
                tgt = [i for i in range(len(self.scs)) if i not in self.eof]
            else:
                tgt = scs
            for s in tgt:
                if s not in self.eof:
                    self.eof[s] = e

    def active(self, r, sc, bol):
        if r.get("bol") and not bol:
            return False
        scs = r.get("scs")
        if scs == "*":
            return True
        if scs is None:
            return not self.scs[sc][1]
        return sc in scs

    def aut(self, sc, bol):
        k = (sc, bool(bol))
        a = self.auts.get(k)
        if a is None:
            a = self.auts[k] = Automaton(self, sc, bol)
        return a

    def splits(self, ri, data, pos, total):
        """Valid head lengths of trailing-context rule ri for data[pos:pos+total]."""
        r = self.rules[ri]
        key = ri
        hm = self.heads.get(key)
        if hm is None:
            hm = self.heads[key] = (pat.Matcher(r["pat"], self.ctx),
                                    pat.Matcher(r["trail"], self.ctx))
        hd, tl = hm
        out = []
        for h in sorted(hd.prefixes(data, pos, total)):
            if (total - h) in tl.prefixes(data, pos + h, total - h):
                out.append(h)
        return out


class MBuf:
    def __init__(self, data, src=None, kind="file"):
        self.data = bytearray(data)
        self.pos = 0
        self.bol = True
        self.lineno = 1
        self.src = src          # index of the source feeding it (file buffers)
        self.kind = kind        # file | string | inplace
        self.fresh = True
        self.dead = False
        self.base = 0           # offset in the source of data[0] (when no push-back at front)
        self.pushed = 0         # bytes inserted in front of data by yyunput

    def src_consumed(self):
        """Lower bound on the number of source bytes the scanner must have been given."""
        return max(0, self.base + self.pos - self.pushed)


def hexs(b):
    return bytes(b).hex() if len(b) else "-"


class Model:
    def __init__(self, case, obs=None, rs=None):
        self.case = case
        self.o = case["opts"]
        self.rs = rs or RuleSet(case)
        self.obs = obs          # list of token lists, or None
        self.out = []           # expected events produced so far
        self.seed = case["seed"] & util.M32
        self.tord = 0
        self.sc = 0
        self.stack = []
        self.bufs = {}          # slot -> MBuf
        self.bstack = []        # buffer stack (slots); top = current
        self.nextslot = 1000
        self.more = b""
        self.more_pending = False
        self.text = b""
        self.g_lineno = 1
        self.per_buf_lineno = self.o.get("flavour") in ("r", "c99")
        self.track_ln = bool(self.o.get("yylineno"))
        self.wrapk = 0
        self.ncalls = 0
        self.sources = case["sources"]
        self.src_used = set()
        self.cmp_deliv = bool(case.get("cmp_deliv"))
        self.deliv_hi = 0
        self.accept_more = 0
        self.feat = {}          # coverage features observed
        self.budget = case.get("budget", {}).get("events", 600)
        self.array = bool(self.o.get("array"))
        self.notes = []

    # ------------------------------------------------------------------ events
    def f(self, name, n=1):
        self.feat[name] = self.feat.get(name, 0) + n

    def peek(self):
        if self.obs is None:
            return None
        i = len(self.out)
        if i < len(self.obs):
            return self.obs[i]
        return None

    def emit(self, ev, wild=()):
        """Record expected event; compare with the observation.  `wild` = indices of
        fields whose observed value is accepted as is."""
        i = len(self.out)
        if ev[0] in "TDWERX" and i >= self.budget:
            raise Stop()
        if self.obs is not None:
            if i >= len(self.obs):
                raise Divergence(i, ev, None, "observed log ends early")
            ob = self.obs[i]
            ok = len(ob) == len(ev)
            if ok:
                for j, (a, b) in enumerate(zip(ev, ob)):
                    if j in wild:
                        continue
                    if a != b:
                        ok = False
                        break
            if not ok:
                raise Divergence(i, ev, ob)
            ev = list(ob)
        self.out.append(ev)

    def H(self, k):
        return util.mix32(self.seed, self.tord, k)

    # ------------------------------------------------------------------ buffers
    def cur(self):
        if not self.bstack:
            return None
        return self.bufs[self.bstack[-1]]

    def ln_get(self):
        if not self.track_ln:
            return "-"
        if self.per_buf_lineno:
            return str(self.cur().lineno)
        return str(self.g_lineno)

    def ln_add(self, d):
        if not self.track_ln or d == 0:
            return
        if self.per_buf_lineno:
            self.cur().lineno += d
        else:
            self.g_lineno += d

    # ------------------------------------------------------------------ running
    def run(self):
        try:
            nsess = int(self.case.get("driver", {}).get("sessions", 1))
            for sess in range(nsess):
                if sess:
                    # the scanner was destroyed: it must behave as if fresh
                    self.emit(["X", "session", str(sess)])
                    self.sc = 0
                    self.stack = []
                    self.bufs = {}
                    self.bstack = []
                    self.more = b""
                    self.more_pending = False
                    self.g_lineno = 1
                    self.wrapk = 0
                    self.ncalls = 0
                    self.f("destroy_and_reuse")
                self.driver()
                for op in self.case.get("driver", {}).get("fini", []):
                    self.do_x(op)
                if self.o.get("ledger") and sess < nsess - 1:
                    self.emit(["A", "live", "0", "*", "*", "*"], wild={3, 4, 5})
            if self.o.get("ledger"):
                # after the user deleted their own buffers and destroyed the scanner every
                # block obtained through yyalloc/yyrealloc must have gone through yyfree
                self.emit(["A", "live", "0", "*", "*", "*"], wild={3, 4, 5})
            self.emit(["Z"])
        except Stop:
            pass
        except OutOfDomain as e:
            self.f("out_of_domain:" + str(e))
            return self.out
        if self.obs is not None and len(self.obs) > len(self.out):
            raise Divergence(len(self.out), None, self.obs[len(self.out)],
                             "observed log continues after the model stopped")
        return self.out

    def driver(self):
        d = self.case.get("driver", {})
        maxcalls = d.get("maxcalls", 100000)
        # initial buffer: source 0 through yyin (or per driver "init")
        init = d.get("init", [("open", 0)])
        for op in init:
            if op[0] in ("push", "pop", "top"):
                self.run_ops([op], True)
                continue
            self.do_x(op)
        after = d.get("after", [])
        atend = list(d.get("atend", []))
        while True:
            if self.ncalls >= maxcalls:
                break
            self.ncalls += 1
            v = self.yylex()
            self.tord = len(self.out)
            self.emit(["R", str(v), str(self.sc)])
            if v == 0:
                if not atend:
                    break
                ops = atend.pop(0)
                if ops is None:
                    break
                for op in ops:
                    self.do_x(op)
                continue
            if after:
                ops = after[(self.ncalls - 1) % len(after)]
                self.run_ops(ops, driver=True)

    # one yylex() call; returns its value
    def yylex(self):
        rs = self.rs
        while True:
            b = self.cur()
            if b is None:
                raise Stop()
            if b.pos >= len(b.data):
                r = self.at_eof()
                if r is not None:
                    return r
                continue
            b.fresh = False
            prefix = b""
            if self.more_pending:
                prefix = self.text
                self.more_pending = False
            aut = rs.aut(self.sc, b.bol)
            want_all = bool(self.o.get("uses_reject"))
            cands, examined = aut.scan(b.data, b.pos, want_all)
            start = b.pos
            if self.cmp_deliv:
                self.deliv_hi = max(self.deliv_hi, start + examined)
            # a scanner using the REJECT machinery cannot grow its buffer: a token (with the
            # look-ahead needed to delimit it) that does not fit ends in the documented
            # fatal error; accepted only when it really does not fit
            ob = self.peek()
            ylm = self.o.get("yylmax")
            if self.array and ylm and ob is not None and ob[:2] == ["F", "toobig"] and \
                    len(prefix) + examined + 1 >= ylm:
                # %array: the text scanned so far (look-ahead included) is copied into the
                # YYLMAX-sized yytext whenever a buffer boundary is met, so the documented
                # fatal error may already come while a shorter token is being delimited
                self.emit(["F", "toobig"])
                self.f("token_too_large")
                raise Stop()
            if ob is not None and ob[:2] == ["F", "reject_ovf"]:
                bs = self.case.get("bufsize") or self.o.get("bufsize") or 0
                if bs and len(prefix) + examined + 2 >= bs:
                    self.emit(["F", "reject_ovf"])
                    self.f("reject_buffer_limit")
                    raise Stop()
            if not cands:
                # no rule matches, not even the default rule (-s)
                self.emit(["F", "jam"])
                raise Stop()
            ci = 0
            while True:
                total, ri = cands[ci]
                ret = self.fire(ri, total, prefix, start, len(cands) - ci - 1)
                if ret == "reject":
                    ci += 1
                    if ci >= len(cands):
                        # every rule rejected: only possible without the default rule (-s),
                        # whose place is taken by the documented "scanner jammed" abort
                        self.emit(["F", "jam"])
                        raise Stop()
                    continue
                break
            if ret is not None:
                return ret

    def fire(self, ri, total, prefix, start, nalt):
        """Run the action of rule index ri matched over `total` bytes at `start`."""
        rs = self.rs
        b = self.cur()
        nrules = len(rs.rules)
        wild = set()
        if ri < nrules and rs.rules[ri].get("trail") is not None:
            hs = rs.splits(ri, b.data, start, total)
            r = rs.rules[ri]
            if r.get("dangerous"):
                hs = list(range(0, total + 1))
            if not hs:
                raise AssertionError("model: no head split for rule %d" % ri)
            h = hs[-1]
            if len(hs) > 1:
                ob = self.peek()
                if ob is not None and len(ob) > 2 and ob[0] == "T":
                    try:
                        oh = int(ob[2]) - len(prefix)
                    except ValueError:
                        oh = -1
                    if oh in hs:
                        h = oh
                self.f("split_ambiguous")
            self.f("trail_fire")
        else:
            h = total
        text = prefix + bytes(b.data[start:start + h])
        ylm = self.o.get("yylmax")
        if self.array and ylm:
            ob = self.peek()
            if len(text) >= ylm:
                # %array: yytext holds YYLMAX characters; a longer token is the documented
                # fatal error (the whole match incl. trailing context is copied first)
                self.emit(["F", "toobig"])
                self.f("token_too_large")
                raise Stop()
        b.pos = start + h
        self.text = text
        self.tok_start = start
        self.tok_prefix = len(prefix)
        nl = bytes(b.data[start:start + h]).count(b"\n")
        self.ln_add(nl)
        if h > 0 or prefix:
            if len(text) > 0:
                b.bol = text[-1] == 10
        owner = rs.owner[ri]
        rule_no = owner + 1
        self.tord = len(self.out)
        self.cur_nl = nl
        if owner == nrules:
            # default rule: the text is echoed to yyout (observed through the harness'
            # unbuffered output stream)
            self.emit(["D", hexs(text)])
            self.f("default_rule")
            return None
        dl = "-"
        if self.cmp_deliv:
            dl = "*"
            wild.add(6)
        ev = ["T", str(rule_no), str(len(text)), hexs(text), str(self.sc), self.ln_get(), dl]
        self.emit(ev, wild)
        if self.cmp_deliv and self.obs is not None:
            self.check_deliv()
        return self.run_ops(rs.rules[owner]["act"])

    def check_deliv(self):
        ob = self.out[-1]
        try:
            d = int(ob[6])
        except (ValueError, IndexError):
            raise Divergence(len(self.out) - 1, "delivered count", ob)
        prev = getattr(self, "deliv_prev", 0)
        bound = max(prev, self.deliv_hi)
        if d > bound:
            raise Divergence(len(self.out) - 1, ["delivered<=%d" % bound], ob,
                             "interactive scanner requested input beyond the point where "
                             "no longer match is possible")
        if d == bound and self.deliv_hi >= prev:
            self.f("lookahead_exact")
        self.deliv_prev = max(prev, d)

    # ------------------------------------------------------------------ actions
    def run_ops(self, ops, driver=False):
        """Interpret an action script; return None (fall out of the action, keep
        scanning), an int (return value) or "reject"."""
        for op in ops:
            k = op[0]
            if k == "if":
                _, kk, mod, thr, body = op
                if self.H(kk) % mod < thr:
                    r = self.run_ops(body, driver)
                    if r is not None:
                        return r
            elif k == "echo":
                pass
            elif k == "ret":
                return op[1]
            elif k == "term":
                return 0
            elif k == "begin":
                self.sc = op[1]
                self.emit(["B", str(self.sc)])
            elif k == "push":
                self.stack.append(self.sc)
                self.sc = op[1]
                self.emit(["P", str(self.sc)])
                self.f("stack_depth_%d" % min(len(self.stack) // 25, 9))
            elif k == "pop":
                if not self.stack:
                    self.emit(["F", "underflow"])
                    self.f("underflow")
                    raise Stop()
                self.sc = self.stack.pop()
                self.emit(["O", str(self.sc)])
            elif k == "top":
                t = self.stack[-1] if self.stack else self.sc
                self.emit(["Q", str(t)])
            elif k == "setbol":
                self.cur().bol = bool(op[1])
                self.emit(["Y", str(int(bool(op[1])))])
            elif k == "more":
                self.more_pending = True
                self.emit(["M"])
                self.f("yymore")
            elif k == "less":
                self.do_less(op)
            elif k == "unput":
                self.do_unput(op[1])
            elif k == "input":
                self.do_input(op[1])
            elif k == "reject":
                self.emit(["J"])
                b = self.cur()
                # the token is un-consumed: undo its line count
                self.ln_add(-self.cur_nl)
                self.f("reject")
                return "reject"
            elif k == "x":
                self.do_x(op[1])
            else:
                raise ValueError("unknown op %r" % (op,))
        return None

    def less_n(self, op):
        """Argument of yyless for op=("less", mode, arg, k)."""
        _, mode, arg, kk = op
        ln = len(self.text)
        lo = self.tok_prefix
        if mode == "abs0":
            # an absolute count that may lie inside a pending yymore() prefix: the characters
            # of yytext after the first n go back, whichever token they came with
            return max(0, min(arg, ln))
        if mode == "abs":
            n = arg
        elif mode == "back":
            n = ln - arg
        else:  # hash
            n = lo + self.H(kk) % (ln - lo + 1)
        if n < lo:
            n = lo
        if n > ln:
            n = ln
        return n

    def do_less(self, op):
        n = self.less_n(op)
        b = self.cur()
        back = self.text[n:]
        if len(back) > b.pos or bytes(b.data[b.pos - len(back):b.pos]) != back:
            # (the prefix was read from another source or has been overwritten by push-back)
            raise OutOfDomain("yyless() into a yymore() prefix that is not in this buffer any more")
        b.pos -= len(back)
        self.ln_add(-back.count(b"\n"))
        self.text = self.text[:n]
        self.emit(["L", str(n), str(len(self.text)), hexs(self.text)])
        self.f("yyless")
        if n == 0:
            self.f("yyless0")

    def do_unput(self, data):
        b = self.cur()
        self.emit(["U", hexs(data)])
        for c in reversed(data):
            if b.pos > 0:
                b.pos -= 1
                b.data[b.pos] = c
            else:
                b.data.insert(0, c)
                b.pushed += 1
            if c == 10:
                self.ln_add(-1)
        self.f("yyunput", len(data))
        self.debt = getattr(self, "debt", 0) + len(data)
        if self.debt > 2000:
            raise OutOfDomain("pushback_volume")

    def do_input(self, n):
        for _ in range(n):
            # a scanner that uses the REJECT machinery (REJECT, variable trailing context)
            # cannot grow its buffer: yytext plus the characters yyinput() has read in this
            # action stay in it, and the documented fatal error comes when they fill it
            ob = self.peek()
            if ob is not None and ob[:2] == ["F", "reject_ovf"]:
                bs = self.case.get("bufsize") or self.o.get("bufsize") or 0
                held = 0
                for ev in reversed(self.out):
                    if ev[0] == "I":
                        held += 1
                    elif ev[0] in ("T", "D"):
                        break
                if bs and len(getattr(self, "text", b"")) + held + 2 >= bs:
                    self.emit(["F", "reject_ovf"])
                    self.f("reject_buffer_limit")
                    raise Stop()
            b = self.cur()
            while b is not None and b.pos >= len(b.data):
                # end of input inside yyinput: yywrap processing first
                cont = self.wrap()
                if not cont:
                    # end value: 0 per the manual's text, EOF per its examples
                    ob = self.peek()
                    v = "0"
                    if ob is not None and len(ob) == 2 and ob[0] == "I" and ob[1] in ("0", "-1"):
                        v = ob[1]
                    self.emit(["I", v])
                    self.f("yyinput_eof")
                    return
                b = self.cur()
            c = b.data[b.pos]
            b.pos += 1
            if c == 10:
                self.ln_add(1)
            self.emit(["I", str(c)])
            self.f("yyinput")
            if c == 0:
                return      # the harness loop stops at a value <= 0 (NUL or end value)

    # ------------------------------------------------------------------ EOF
    def wrap(self):
        """yywrap processing; returns True if scanning continues with more input."""
        ws = self.case.get("wrap", [])
        k = self.wrapk
        self.wrapk += 1
        op = ws[k] if k < len(ws) else ("stop",)
        if op[0] == "stop":
            self.emit(["W", str(k), "1"])
            return False
        if op[0] in ("next", "soft"):   # yyin = source op[1]; return 0 ("soft": the same
            b = self.cur()              # stream goes on with those bytes)
            if op[0] == "soft":
                self.f("wrap_soft")
            self.emit(["W", str(k), "0"])
            b.data = bytearray(self.sources[op[1]])
            b.pos = 0
            b.bol = True
            b.src = op[1]
            b.kind = "file"
            self.f("wrap_next")
            if len(b.data) == 0:
                self.f("wrap_next_empty")
            return True
        if op[0] == "switch":        # yy_switch_to_buffer(slot); return 0
            self.emit(["W", str(k), "0"])
            self.switch_to(op[1])
            self.f("wrap_switch")
            return True
        if op[0] == "gswitch_or_pop" and op[1] in self.bufs and op[1] not in self.bstack:
            self.emit(["W", str(k), "0"])
            self.switch_to(op[1])
            self.f("wrap_switch_keep_exhausted")
            return True
        if op[0] in ("pop", "gswitch_or_pop"):   # yypop_buffer_state(); return 0 if a buffer remains
            if len(self.bstack) > 1:
                self.emit(["W", str(k), "0"])
                self.pop_buffer()
                self.f("wrap_pop")
                return True
            self.emit(["W", str(k), "1"])
            return False
        raise ValueError(op)

    def at_eof(self):
        """Current buffer exhausted at a token boundary.  Returns a yylex return value or
        None to continue scanning."""
        if self.more_pending:
            # yymore() immediately before end of input: the manual does not say what
            # happens to the pending text
            raise OutOfDomain("yymore_at_eof")
        self.f("eof")
        if self.cur().fresh:
            self.f("eof_empty_source")
        if self.wrap():
            return None
        e = self.rs.eof.get(self.sc)
        self.tord = len(self.out)
        if e is None:
            return 0
        self.emit(["E", str(self.sc), self.ln_get()])
        self.f("eof_rule")
        r = self.run_ops(e["act"])
        if r == "reject":
            raise ValueError("REJECT in EOF action")
        if r is None:
            # action fell through: it must have changed the input, otherwise the scanner
            # loops (manual).  Generators guarantee that; guard anyway.
            if self.cur() is not None and self.cur().pos >= len(self.cur().data):
                self.eof_spin = getattr(self, "eof_spin", 0) + 1
                if self.eof_spin > 50:
                    raise Stop()
        return r

    # ------------------------------------------------------------------ driver / buffer ops
    def new_slot(self):
        self.nextslot += 1
        return self.nextslot

    def switch_to(self, slot):
        if self.bstack:
            self.bstack[-1] = slot
        else:
            self.bstack.append(slot)

    def pop_buffer(self):
        s = self.bstack.pop()
        self.bufs[s].dead = True
        del self.bufs[s]

    def do_x(self, op):
        k = op[0]
        if k == "open":              # yyin = source; (first yylex creates the buffer)
            slot = 0
            self.bufs[slot] = MBuf(self.sources[op[1]], op[1])
            self.bstack = [slot]
            self.emit(["X", "open", str(op[1])])
        elif k == "open_buf":        # explicit buffer in slot 0 on source op[1], made current
            self.bufs[0] = MBuf(self.sources[op[1]], op[1])
            self.bstack = [0]
            self.emit(["X", "open_buf", str(op[1])])
        elif k == "open_restart":    # yyrestart(source) before anything else: no buffer, no yyin yet
            self.bufs[0] = MBuf(self.sources[op[1]], op[1])
            self.bstack = [0]
            self.emit(["X", "open_restart", str(op[1])])
            self.f("restart_without_buffer")
        elif k == "newin":           # after termination: yyin = new source, call yylex again
            b = self.cur()
            b.data = bytearray(self.sources[op[1]])
            b.pos = 0
            b.bol = True
            b.src = op[1]
            self.emit(["X", "newin", str(op[1])])
            self.f("newin")
        elif k == "restart":         # yyrestart(source)
            b = self.cur()
            b.data = bytearray(self.sources[op[1]])
            b.pos = 0
            b.bol = True
            b.src = op[1]
            self.more_pending = False
            self.emit(["X", "restart", str(op[1])])
            self.f("restart")
        elif k == "begin":
            self.sc = op[1]
            self.emit(["B", str(self.sc)])
        elif k == "tables":          # yytables_fload of the matching file succeeds
            self.emit(["X", "tables", "0"])
        elif k == "tables_destroy":
            pass
        elif k == "begin_param":     # start condition taken from the input pack
            self.sc = int(self.case.get("param", 0))
            self.emit(["B", str(self.sc)])
        elif k == "create":          # slot = yy_create_buffer(source, size)
            self.bufs[op[1]] = MBuf(self.sources[op[2]], op[2])
            self.emit(["X", "create", str(op[1]), str(op[2])])
        elif k == "scan_string" or k == "scan_bytes":
            # slot = yy_scan_bytes(strings[i]) -- becomes current (switch)
            data = self.case["strings"][op[2]]
            if k == "scan_string":
                z = data.find(b"\0")
                if z >= 0:
                    data = data[:z]
            self.bufs[op[1]] = MBuf(data, None, "string")
            self.switch_to(op[1])
            self.emit(["X", k, str(op[1]), str(op[2])])
            self.f(k)
        elif k == "scan_buffer":     # in place; op[3]: well-formed or not
            data = self.case["strings"][op[2]]
            if op[3]:
                self.bufs[op[1]] = MBuf(data, None, "inplace")
                self.switch_to(op[1])
                self.emit(["X", k, str(op[1]), str(op[2]), "ok"])
            else:
                self.emit(["X", k, str(op[1]), str(op[2]), "null"])
                self.f("scan_buffer_null")
        elif k == "switch":
            self.switch_to(op[1])
            self.emit(["X", "switch", str(op[1])])
            self.f("switch")
            if self.cur().pos > 0 and not self.cur().bol:
                self.f("switch_back_midline")
        elif k == "bpush":           # yypush_buffer_state(slot)
            self.bstack.append(op[1])
            self.emit(["X", "bpush", str(op[1])])
            self.f("bpush_depth_%d" % min(len(self.bstack) // 8, 9))
        elif k == "bpop":
            if len(self.bstack) > 1:
                self.pop_buffer()
            self.emit(["X", "bpop"])
            self.f("bpop")
        elif k == "delete":          # delete a non-current buffer
            self.bufs[op[1]].dead = True
            del self.bufs[op[1]]
            self.emit(["X", "delete", str(op[1])])
            self.f("delete")
        elif k in ("gcreate", "gswitch", "gpush", "gpop", "gdelete", "gscan_bytes",
                   "gscan_string", "gscan_buffer", "gflush", "greflush", "gdelrestart", "gdelpush"):
            self.do_guarded(op)
        elif k == "gdelete_all":     # the user deletes their own non-current buffers
            for s_ in [x for x in self.bufs if x not in self.bstack]:
                del self.bufs[s_]
            self.emit(["X", "delete_all"])
        elif k == "setlineno":
            if self.track_ln:
                if self.per_buf_lineno:
                    self.cur().lineno = op[1]
                else:
                    self.g_lineno = op[1]
            self.emit(["X", "setlineno", str(op[1])])
        else:
            raise ValueError("unknown driver op %r" % (op,))


    # guarded buffer operations: executed only when valid in the current state; harness
    # and model apply the same validity rules (see emit.Emitter.buffer_helpers)
    def src_in_use(self, src):
        return any(b.src == src for b in self.bufs.values())

    def do_guarded(self, op):
        k = op[0]
        name = k[1:]
        st = self.bstack
        if k == "gcreate":
            _, s, src = op[:3]
            if s in self.bufs or self.src_in_use(src):
                self.emit(["X", "skip", name])
                return
            self.bufs[s] = MBuf(self.sources[src], src)
            self.emit(["X", "create", str(s), str(src)])
            self.f("create")
        elif k in ("gswitch", "gpush"):
            s = op[1]
            if s not in self.bufs or s in st:
                self.emit(["X", "skip", name])
                return
            if k == "gswitch":
                st[-1] = s
                self.emit(["X", "switch", str(s)])
                self.f("switch")
                b = self.bufs[s]
                if b.pos > 0 and not b.bol:
                    self.f("switch_back_midline")
            else:
                st.append(s)
                self.emit(["X", "bpush", str(s)])
                self.f("bpush_depth_%d" % min(len(st) // 8, 9))
            self.more_pending = False
        elif k == "gpop":
            if len(st) <= 1:
                self.emit(["X", "skip", name])
                return
            self.pop_buffer()
            self.emit(["X", "bpop"])
            self.f("bpop")
        elif k == "gdelete":
            s = op[1]
            if s not in self.bufs or s in st:
                self.emit(["X", "skip", name])
                return
            del self.bufs[s]
            self.emit(["X", "delete", str(s)])
            self.f("delete")
        elif k == "gdelpush":
            # yy_delete_buffer(YY_CURRENT_BUFFER); yypush_buffer_state(slot): with no current
            # buffer the pushed one takes the vacated place on the stack
            s = op[1]
            if s not in self.bufs or s in st:
                self.emit(["X", "skip", name])
                return
            cur = st[-1]
            del self.bufs[cur]
            st[-1] = s
            self.more_pending = False
            self.emit(["X", "delpush", str(cur), str(s)])
            self.f("push_without_current_buffer")
        elif k == "gdelrestart":
            # yy_delete_buffer(YY_CURRENT_BUFFER); yyrestart(source): the scanner has no current
            # buffer when yyrestart() is called and makes one for the file it is given
            src = op[1]
            s = st[-1]
            if any(b.src == src for sl, b in self.bufs.items() if sl != s):
                self.emit(["X", "skip", name])
                return
            self.bufs[s] = MBuf(self.sources[src], src)
            self.more_pending = False
            self.emit(["X", "delrestart", str(s), str(src)])
            self.f("restart_without_buffer")
        elif k in ("gscan_bytes", "gscan_string"):
            _, s, si = op[:3]
            if s in self.bufs:
                self.emit(["X", "skip", name])
                return
            data = self.case["strings"][si]
            if k == "gscan_string":
                z = data.find(b"\0")
                if z >= 0:
                    data = data[:z]
            self.bufs[s] = MBuf(data, None, "string")
            st[-1] = s
            self.emit(["X", name, str(s), str(si)])
            self.f(name)
        elif k == "gscan_buffer":
            _, s, si, ok = op[:4]
            if s in self.bufs:
                self.emit(["X", "skip", name])
                return
            if ok:
                self.bufs[s] = MBuf(self.case["strings"][si], None, "inplace")
                st[-1] = s
                self.emit(["X", name, str(s), str(si), "ok"])
                self.f("scan_buffer_ok")
            else:
                self.emit(["X", name, str(s), str(si), "null"])
                self.f("scan_buffer_null")
        elif k == "greflush":
            s = op[1]
            if s not in self.bufs or self.bufs[s].kind != "file":
                self.emit(["X", "skip", name])
                return
            b = self.bufs[s]
            self.emit(["X", "reflush", str(s)])
            b.data = bytearray(self.sources[b.src])
            b.pos = 0
            b.base = 0
            b.bol = True
            b.pushed = 0
            self.f("reflush")
            if s == st[-1]:
                self.more_pending = False
                self.f("reflush_current")
            else:
                self.f("reflush_noncurrent")
        elif k == "gflush":
            s = op[1]
            if s not in self.bufs:
                self.emit(["X", "skip", name])
                return
            b = self.bufs[s]
            if b.kind != "file":
                # a string buffer has nothing to refill from: everything is discarded
                self.emit(["X", "flush", str(s), "-"])
                b.pos = len(b.data)
            else:
                # buffered text is discarded: scanning resumes at the first byte the source
                # has not delivered yet (observed; must lie between the scan position of
                # the original text and the end)
                i = len(self.out)
                ev = ["X", "flush", str(s), "*"]
                self.emit(ev, wild={3})
                ob = self.out[-1]
                if self.obs is not None:
                    try:
                        d = int(ob[3])
                    except ValueError:
                        raise Divergence(i, ev, ob, "flush position")
                    consumed_src = b.src_consumed()
                    if d < consumed_src or d > len(self.sources[b.src]):
                        raise Divergence(i, ["X", "flush", str(s), ">=%d" % consumed_src], ob,
                                         "flush discarded text the source never delivered, "
                                         "or delivered count below what was scanned")
                    b.data = bytearray(self.sources[b.src][d:])
                    b.pos = 0
                    b.base = d
                else:
                    b.data = bytearray()
                    b.pos = 0
            b.bol = True
            b.pushed = 0
            self.f("flush")
            if s == st[-1]:
                self.f("flush_current")
                self.more_pending = False
            else:
                self.f("flush_noncurrent")


def parse_log(text):
    out = []
    for line in text.splitlines():
        line = line.strip()
        if not line or line.startswith("#"):
            continue
        out.append(line.split())
    return out


def check(case, logtext, rs=None):
    """Co-simulate; return (ok, info).  info has features, or the divergence."""
    obs = parse_log(logtext)
    m = Model(case, obs, rs)
    try:
        m.run()
    except Divergence as d:
        return False, {"index": d.idx, "expected": d.expected, "observed": d.observed,
                       "why": d.why, "context": obs[max(0, d.idx - 5):d.idx + 3],
                       "features": m.feat}
    return True, {"features": m.feat, "events": len(m.out), "notes": m.notes}


def expected(case, rs=None):
    m = Model(case, None, rs)
    m.run()
    return m.out, m.feat
