"""Entry point:  python3 -m vf.check <ID> [--tier quick|thorough] [--replay DIR]"""
import sys, os, importlib, argparse
from . import common


def main():
    ap = argparse.ArgumentParser()
    ap.add_argument("pid")
    ap.add_argument("--tier", default=os.environ.get("VERIF_TIER", "quick"))
    ap.add_argument("--replay", default=None)
    a = ap.parse_args()
    pid = a.pid.upper()
    mod = importlib.import_module("vf.props.%s" % pid.lower())
    if a.replay:
        sys.exit(mod.replay(a.replay))
    sys.exit(common.main_wrap(mod.run, pid, a.tier))


if __name__ == "__main__":
    main()
