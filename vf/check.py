"""Entry point:  python3 -m vf.check <ID> [--tier quick|thorough] [--replay DIR]"""
import sys, os, importlib, argparse
from . import common


def devnull_guard():
    """flex removes its output file when it fails, so a failing `flex -o /dev/null` run as root
    (the repository's test suite does that under some source changes) unlinks /dev/null, and
    every later subprocess of this harness would fail to start.  Put it back."""
    import stat
    try:
        if stat.S_ISCHR(os.stat("/dev/null").st_mode):
            return
    except OSError:
        pass
    try:
        if os.path.lexists("/dev/null"):
            os.unlink("/dev/null")
        os.mknod("/dev/null", 0o666 | stat.S_IFCHR, os.makedev(1, 3))
        os.chmod("/dev/null", 0o666)
    except OSError as e:
        print("HARNESS FAILURE: /dev/null is not a character device and cannot be restored: %s" % e)
        sys.exit(2)


def main():
    devnull_guard()
    ap = argparse.ArgumentParser()
    ap.add_argument("pid")
    ap.add_argument("--tier", default=os.environ.get("VERIF_TIER", "quick"))
    ap.add_argument("--replay", default=None)
    a = ap.parse_args()
    pid = a.pid.upper()
    mod = importlib.import_module("vf.props.%s" % pid.lower())
    if a.replay:
        sys.exit(mod.replay(a.replay))
    sys.exit(common.main_wrap(mod.run, pid, a.tier))


if __name__ == "__main__":
    main()
