"""Check plumbing: tiers, evidence, violations with replay directories, known findings."""
import os, sys, json, time, shutil, hashlib, traceback
from . import util, build

EVID = os.path.join(util.VERIF, "evidence")
REPLAY = os.path.join(util.VERIF, "replay")
KNOWN = os.path.join(util.VERIF, "known_findings.json")


class Harness(Exception):
    """Harness failure / inconclusive: exit 2."""


def load_known():
    try:
        with open(KNOWN) as f:
            return json.load(f)
    except FileNotFoundError:
        return {"findings": []}


class Check:
    def __init__(self, pid, tier, level="exploration"):
        self.pid = pid
        self.tier = tier
        self.level = level
        self.seed = util.seed_from_env()
        self.t0 = time.time()
        self.scratch = util.Scratch(pid.lower())
        self.evaluations = 0
        self.nontrivial = set()
        self.samples = []
        self.features = {}
        self.violations = []
        self.known_hit = []
        self.inconclusive = []
        self.extra = {}
        self.assumptions = []
        self.rule = ""
        self.required = {}     # feature -> minimum count (non-vacuity)
        self._flex = {}
        k = load_known()
        self.known = [f for f in k.get("findings", []) if f.get("property") == pid]
        self.avoid = set()
        for f in self.known:
            if f.get("status") == "known":
                for a in f.get("avoid", []):
                    self.avoid.add(a)
        shutil.rmtree(os.path.join(REPLAY, pid), ignore_errors=True)

    def rng(self, *key):
        return util.Rng(self.seed, self.pid, *key)

    def flex(self, variant="san"):
        # tools/coverage.sh re-runs the checks with an instrumented (gcov) flex to measure
        # which parts of the generator the workloads reach; verdicts of such runs are not used
        variant = os.environ.get("VERIF_FLEX_VARIANT") or variant
        f = self._flex.get(variant)
        if f is None:
            try:
                f = build.get_flex(variant)
            except build.BuildError as e:
                raise Harness("cannot build flex (%s): %s" % (variant, e))
            self._flex[variant] = f
        return f

    # ------------------------------------------------------------------ accounting
    def count(self, n=1):
        self.evaluations += n

    def nontriv(self, key):
        if not isinstance(key, (str, bytes)):
            key = repr(key)
        if isinstance(key, str):
            key = key.encode("latin1", "replace")
        self.nontrivial.add(hashlib.sha1(key).digest()[:8])

    def feat(self, d):
        for k, v in d.items():
            self.features[k] = self.features.get(k, 0) + v

    def feat1(self, k, n=1):
        self.features[k] = self.features.get(k, 0) + n

    def sample(self, obj, limit=6):
        if len(self.samples) < limit:
            self.samples.append(obj)

    # ------------------------------------------------------------------ verdicts
    def sig_matches_known(self, sig):
        for f in self.known:
            if f.get("status") != "known":
                continue
            for s in f.get("signatures", []):
                if all(sig.get(k) == v for k, v in s.items()):
                    return f
        return None

    def violation(self, what, sig=None, save=None):
        """Record a violation.  `sig` (dict) is matched against known findings; `save`
        is a callback(dirpath) that writes the replay material."""
        sig = sig or {}
        kf = self.sig_matches_known(sig)
        if kf is not None:
            if kf["id"] not in [k["id"] for k in self.known_hit]:
                self.known_hit.append(kf)
            return None
        n = len(self.violations)
        d = os.path.join(REPLAY, self.pid, "v%03d" % n)
        if n < 20:
            os.makedirs(d, exist_ok=True)
            try:
                if save:
                    save(d)
                util.jdump({"property": self.pid, "what": what, "signature": sig,
                            "seed": self.seed, "tier": self.tier},
                           os.path.join(d, "violation.json"))
            except Exception as e:  # replay material is best effort
                util.write(os.path.join(d, "save_error.txt"), traceback.format_exc())
        self.violations.append({"what": what, "sig": sig, "replay": d})
        return d

    def inconc(self, what):
        self.inconclusive.append(what)

    def require(self, feature, minimum=1):
        self.required[feature] = minimum

    # ------------------------------------------------------------------ finish
    def finish(self):
        wall = time.time() - self.t0
        missing = [k for k, m in self.required.items() if self.features.get(k, 0) < m]
        cov = {
            "evaluations": int(self.evaluations),
            "distinct_nontrivial": len(self.nontrivial),
            "rule": self.rule,
            "samples": self.samples[:8] or ["(none)"],
            "features_observed": dict(sorted(self.features.items())),
            "required_features": self.required,
            "required_features_missing": missing,
            "inconclusive": self.inconclusive[:20],
            "inconclusive_count": len(self.inconclusive),
            "known_findings_reproduced": [k["id"] for k in self.known_hit],
            "known_finding_features_excluded": sorted(self.avoid),
        }
        cov.update(self.extra)
        ev = {"property_id": self.pid, "tier": self.tier, "seed": self.seed,
              "level": self.level, "coverage": cov, "assumptions": self.assumptions,
              "wall_s": round(wall, 2), "violations": len(self.violations)}
        evdir = EVID
        if os.environ.get("VERIF_NO_EVIDENCE"):
            # runs against a deliberately changed tree (seeded regressions) must not
            # overwrite the evidence of the registered tree
            evdir = os.path.join(util.scratch_root(), "vf-evidence-scratch")
        os.makedirs(evdir, exist_ok=True)
        util.jdump(ev, os.path.join(evdir, "%s.json" % self.pid))
        self.scratch.cleanup()
        for k in self.known_hit:
            print("KNOWN-FINDING: property=%s %s" % (self.pid, k["what"]))
        print("%s %s seed=%d: evaluations=%d distinct_nontrivial=%d violations=%d "
              "inconclusive=%d wall=%.1fs" % (self.pid, self.tier, self.seed, self.evaluations,
                                             len(self.nontrivial), len(self.violations),
                                             len(self.inconclusive), wall))
        if self.violations:
            for v in self.violations[:10]:
                print("VIOLATION property=%s replay=%s" % (self.pid, v["replay"]))
                print("  " + v["what"][:600].replace("\n", "\n  "))
            return 1
        if missing:
            print("INCONCLUSIVE: required coverage not observed: %s" % ", ".join(missing))
            return 2
        if self.evaluations == 0 or len(self.nontrivial) < 2:
            print("INCONCLUSIVE: nothing explored")
            return 2
        return 0


def main_wrap(fn, pid, tier):
    chk = None
    try:
        chk = fn(pid, tier)
        rc = chk.finish()
    except Harness as e:
        print("HARNESS FAILURE (%s): %s" % (pid, e))
        if chk is not None:
            chk.scratch.cleanup()
        rc = 2
    except Exception:
        traceback.print_exc()
        print("HARNESS FAILURE (%s): unexpected exception" % pid)
        rc = 2
    sys.stdout.flush()
    return rc
