"""Bounded delta-debugging of a failing (case, configuration, input)."""
import os, copy, shutil
from . import util, stream, pat


def _fails(flex, case, cfg, inp, wd, kind):
    shutil.rmtree(wd, ignore_errors=True)
    try:
        res = stream.run_case(flex, case, [cfg], [inp], wd)
    except Exception:
        return None
    for p in res.problems:
        if p["kind"] == kind:
            return p
    return None


def subnodes(node):
    """Simpler replacements for a pattern node."""
    k = node[0]
    out = []
    if k in ("cat", "alt"):
        ch = node[1]
        for i in range(len(ch)):
            rest = ch[:i] + ch[i + 1:]
            if len(rest) == 1:
                out.append(rest[0])
            elif rest:
                out.append((k, rest))
        for i in range(len(ch)):
            for s in subnodes(ch[i]):
                out.append((k, ch[:i] + [s] + ch[i + 1:]))
    elif k in ("star", "plus", "opt"):
        out.append(node[1])
        for s in subnodes(node[1]):
            out.append((k, s))
    elif k == "rep":
        out.append(node[1])
        for s in subnodes(node[1]):
            out.append(("rep", s) + tuple(node[2:]))
    elif k == "grp":
        out.append(node[1])
        if node[2] is not None or node[3] is not None:
            out.append(("grp", node[1], None, None))
        for s in subnodes(node[1]):
            out.append(("grp", s, node[2], node[3]))
    elif k == "ccl":
        items = node[2]
        if len(items) > 1:
            for i in range(len(items)):
                out.append(("ccl", node[1], items[:i] + items[i + 1:]))
        if node[1]:
            out.append(("ccl", False, items))
    elif k == "cclop":
        out.append(node[1])
        ops = node[2]
        for i in range(len(ops)):
            rest = ops[:i] + ops[i + 1:]
            out.append(("cclop", node[1], rest) if rest else node[1])
        for i, (op, r) in enumerate(ops):
            for s in subnodes(r):
                if s[0] == "ccl":
                    out.append(("cclop", node[1], ops[:i] + [(op, s)] + ops[i + 1:]))
        for s in subnodes(node[1]):
            if s[0] == "ccl":
                out.append(("cclop", s, ops))
    elif k == "str":
        b = node[1]
        if len(b) > 1:
            out.append(("str", b[:len(b) // 2]))
            out.append(("str", b[len(b) // 2:]))
    elif k == "ref":
        pass
    return out


def reduce(flex, case, cfg, inp, kind, wd, budget=150):
    """Return (case, inp, problem) shrunk as far as the budget allows."""
    case = copy.deepcopy(case)
    inp = copy.deepcopy(inp)
    best = _fails(flex, case, cfg, inp, wd, kind)
    if best is None:
        return case, inp, None
    runs = [0]

    def attempt(c2, i2):
        if runs[0] >= budget:
            return None
        runs[0] += 1
        return _fails(flex, c2, cfg, i2, wd, kind)

    changed = True
    while changed and runs[0] < budget:
        changed = False
        # drop rules
        i = 0
        while i < len(case["rules"]) and len(case["rules"]) > 1:
            c2 = copy.deepcopy(case)
            del c2["rules"][i]
            if c2["rules"] and c2["rules"][-1]["act"] == "|":
                c2["rules"][-1]["act"] = []
            p = attempt(c2, inp)
            if p:
                case, best, changed = c2, p, True
            else:
                i += 1
        # shorten input
        src = inp["sources"][0]
        n = len(src)
        step = max(1, n // 2)
        while step >= 1 and runs[0] < budget:
            j = 0
            while j < len(src):
                cand = src[:j] + src[j + step:]
                i2 = dict(inp)
                i2["sources"] = [cand] + list(inp["sources"][1:])
                p = attempt(case, i2)
                if p:
                    src, inp, best, changed = cand, i2, p, True
                else:
                    j += step
            step //= 2
        # simplify patterns
        for ri in range(len(case["rules"])):
            prog = True
            while prog and runs[0] < budget:
                prog = False
                for s in subnodes(case["rules"][ri]["pat"]):
                    c2 = copy.deepcopy(case)
                    c2["rules"][ri]["pat"] = s
                    p = attempt(c2, inp)
                    if p:
                        case, best, changed, prog = c2, p, True, True
                        break
        # drop defs that are unused is not attempted (harmless)
        # drop start conditions of rules
        for ri in range(len(case["rules"])):
            r = case["rules"][ri]
            if r.get("scs") is not None or r.get("bol"):
                c2 = copy.deepcopy(case)
                c2["rules"][ri]["scs"] = None
                c2["rules"][ri]["bol"] = False
                p = attempt(c2, inp)
                if p:
                    case, best, changed = c2, p, True
    return case, inp, best
