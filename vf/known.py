"""Pinned reproducers of recorded findings (known_findings.json).

Each entry has a `probe`: a small self-contained specification, flex arguments, an input
and the documented expected output.  `fixed` entries must pass (a regression is a
VIOLATION of the entry's property); `known` entries that still fail print a
KNOWN-FINDING line and do not affect the exit status.
"""
import os, re, json
from . import util, runner

KDIR = os.path.join(util.VERIF, "known")


def run_probe(flex, probe, workdir):
    """Returns (ok, detail)."""
    os.makedirs(workdir, exist_ok=True)
    spec = os.path.join(KDIR, probe["spec"])
    cxx = probe.get("lang") == "c++"
    out = os.path.join(workdir, "p.cc" if cxx else "p.c")
    cmd, r = runner.flex_generate(flex, spec, out, probe.get("flexargs", []), cwd=workdir)
    if probe.get("fsize_below_full") and r.rc == 0 and os.path.exists(out):
        # run again with a file size limit just below the size of the complete scanner
        lim = os.path.getsize(out) - int(probe["fsize_below_full"])
        r = util.run(["prlimit", "--fsize=%d" % lim] + cmd, cwd=workdir, env=flex.env(tmpdir=workdir),
                     timeout=30)
    exp = probe.get("expect", "output")
    err = r.err.decode("latin1")
    if exp == "flex_fails":
        if r.rc not in (0, None) and not r.timed_out and r.rc > 0 and err.strip():
            want = probe.get("stderr_has")
            if want and want not in err:
                return False, "flex failed without the expected message %r: %s" % (want, err[-300:])
            return True, "refused as documented"
        return False, "flex exit %s, stderr %r" % (r.rc, err[-300:])
    if r.rc != 0 or r.timed_out:
        return False, "flex failed rc=%s: %s" % (r.rc, err[-500:])
    if probe.get("stderr_lacks") and probe["stderr_lacks"] in err:
        return False, "flex printed %r" % probe["stderr_lacks"]
    if probe.get("stderr_has") and probe["stderr_has"] not in err:
        return False, "flex did not print %r" % probe["stderr_has"]
    if probe.get("gen_lacks") or probe.get("gen_has"):
        try:
            gtxt = open(out, "rb").read().decode("latin1")
        except OSError:
            gtxt = ""
        if probe.get("gen_lacks") and probe["gen_lacks"] in gtxt:
            return False, "generated scanner contains %r" % probe["gen_lacks"]
        if probe.get("gen_has") and probe["gen_has"] not in gtxt:
            return False, "generated scanner lacks %r" % probe["gen_has"]
    if probe.get("own_linedirs"):
        # every line directive naming the output file sits just above the line it names
        try:
            glines = open(out, "rb").read().split(b"\n")
        except OSError:
            glines = []
        seen = 0
        for n, l in enumerate(glines, 1):
            m = re.match(rb'#line (\d+) "(.*)"$', l)
            if m and m.group(2).decode("latin1") == out:
                seen += 1
                if int(m.group(1)) != n + 1:
                    return False, "line %d of the output file says %r" % (n, l.decode("latin1"))
        if not seen:
            return False, "no line directive names the output file"
    for fname, text in probe.get("files_lack", []):
        try:
            ftxt = open(os.path.join(workdir, fname), "rb").read().decode("latin1")
        except OSError:
            return False, "%s was not written" % fname
        if text in ftxt:
            return False, "%s contains %r" % (fname, text)
    if exp == "generates":
        return True, "generated"
    exe = os.path.join(workdir, "p.exe")
    cc = ["g++" if cxx else "gcc"] + (probe.get("cflags") or ["-w"]) + [
        "-g", "-O1", "-fsanitize=address,undefined",
        "-fno-sanitize-recover=all", "-I", flex.include, "-o", exe, out] + probe.get("ldflags", [])
    c = util.run(cc, cwd=workdir, env=util.clean_env(), timeout=120)
    if c.rc != 0:
        return False, "generated scanner does not compile: %s" % c.err.decode("latin1")[-600:]
    if exp == "compiles":
        return True, "compiles"
    inp = bytes.fromhex(probe.get("input_hex", ""))
    env = util.clean_env(runner.SAN_ENV)
    x = util.run([exe], cwd=workdir, env=env, stdin=inp, timeout=30, cpu_s=10)
    got = x.out
    want = bytes.fromhex(probe["stdout_hex"]) if "stdout_hex" in probe else \
        probe.get("stdout", "").encode("latin1")
    if x.timed_out or x.rc in (152, -24, -9):
        return False, "scanner does not terminate on the input"
    if x.rc != probe.get("rc", 0):
        return False, "exit %s stderr %s" % (x.rc, x.err.decode("latin1")[-800:])
    if got != want:
        return False, "output %r, documented %r" % (got[:200], want[:200])
    return True, "output as documented"


def replay_known(chk, flex=None):
    """Run the pinned probes of chk's property."""
    flex = flex or chk.flex("san")
    for f in chk.known:
        probe = f.get("probe")
        if not probe:
            continue
        wd = os.path.join(chk.scratch.path, "known_" + f["id"])
        ok, detail = run_probe(flex, probe, wd)
        chk.count(1)
        chk.feat1("known_probe_replayed")
        if f["status"] == "fixed":
            if not ok:
                p = probe

                def save(d, p=p, f=f, detail=detail):
                    util.jdump({"finding": f, "detail": detail}, os.path.join(d, "finding.json"))
                chk.violation("fixed finding %s came back: %s (%s)" % (f["id"], f["what"], detail),
                              {"finding": f["id"], "regressed": True}, save)
            else:
                chk.feat1("fixed_probe_passes")
        else:
            if not ok:
                if f["id"] not in [k["id"] for k in chk.known_hit]:
                    chk.known_hit.append(f)
            else:
                chk.feat1("known_probe_now_passes")
