/* Runtime of the verification harness: compiled into the same translation unit as a
 * generated scanner.  Event log, scheduled input sources, the hash shared with the
 * Python model, ledger allocators, fatal-error classification.
 * Everything is static: one scanner + this header = one program (several prefixed
 * scanners each get their own copy; the log is per context).
 */
#ifndef VF_RT_H
#define VF_RT_H
#ifndef _GNU_SOURCE
#define _GNU_SOURCE 1
#endif
#include <stdio.h>
#include <stdlib.h>
#include <string.h>
#include <stdint.h>
#include <unistd.h>
#include <errno.h>
#include <fcntl.h>
#include <signal.h>
#include <sys/types.h>
#include <setjmp.h>

#ifdef __cplusplus
#define VF_UNUSED __attribute__((unused))
#else
#define VF_UNUSED __attribute__((unused))
#endif

#define VF_NOLN (-2147483647 - 1)
#define VF_MAXSRC 64
#define VF_MAXSTR 64
#define VF_MAXSLOT 256
#define VF_MAXLEDGER 4096

struct vf_src {
	unsigned char *d;
	size_t n, pos;
	FILE *fp;
	int id;
	struct vf_ctx *ctx;
	int fail_at;		/* read index at which to fail (-1 none) */
	int fail_errno;
	long soft_at;		/* byte position at which the source reports end of input once and then
				 * goes on (a terminal after ^D, a file that has grown); -1 none */
	int soft_done;
	int nreads;
};

struct vf_blk { void *p; size_t n; };

struct vf_ctx {
	uint32_t seed, nev, tord, budget;
	char *log;
	size_t loglen, logcap;
	const char *logpath;
	int finished;
	struct vf_src src[VF_MAXSRC];
	int nsrc;
	unsigned char *str[VF_MAXSTR];
	size_t strn[VF_MAXSTR];
	int nstr;
	uint32_t *sched;
	uint32_t nsched, schedi;
	size_t delivered;	/* bytes handed to the scanner so far */
	size_t requested;	/* read requests so far */
	int wrapk;
	int more_pending, prev_leng, tok_prefix;
	void *slot[VF_MAXSLOT];
	void *slotmem[VF_MAXSLOT];
	int slotsrc[VF_MAXSLOT];
	int bstk[VF_MAXSLOT];
	int bdepth;
	FILE *out;
	/* allocator ledger */
	int ledger_on;
	struct vf_blk blk[VF_MAXLEDGER];
	int nblk;
	long nalloc, nrealloc, nfree, alloc_fail_at, alloc_count;
	long bad_free;
	size_t live_bytes;
	int id;
	int cur_src;		/* for flavours without a FILE identity (C++) */
	int use_jmp;		/* several instances in one process: leave the instance, not the process */
	jmp_buf jmp;
	uint32_t flags;		/* 1: log delivered count; 2: sources are real (temporary) files */
	uint32_t bufsize;	/* size for explicitly created buffers, 0 = YY_BUF_SIZE */
};

static __thread struct vf_ctx *vf_tls VF_UNUSED;
static volatile int vf_zero VF_UNUSED;	/* always 0: lets generated code build compound arguments */
static struct vf_ctx *vf_all[64];
static int vf_nall;

static uint32_t vf_mix32(uint32_t a, uint32_t b, uint32_t c)
{
	uint32_t h = a * 0x9E3779B1u;
	h ^= (b + 0x7F4A7C15u + (h << 6) + (h >> 2));
	h *= 0x85EBCA6Bu;
	h ^= h >> 13;
	h ^= (c + 0x165667B1u + (h << 6) + (h >> 2));
	h *= 0xC2B2AE35u;
	h ^= h >> 16;
	return h;
}

static VF_UNUSED uint32_t vf_H(struct vf_ctx *c, uint32_t k)
{
	return vf_mix32(c->seed, c->tord, k);
}

/* ------------------------------------------------------------------ log */
static void vf_flush(struct vf_ctx *c)
{
	int fd;
	size_t off = 0;
	if (!c || !c->logpath || !c->loglen)
		return;
	fd = open(c->logpath, O_WRONLY | O_CREAT | O_APPEND, 0644);
	if (fd < 0)
		return;
	while (off < c->loglen) {
		ssize_t w = write(fd, c->log + off, c->loglen - off);
		if (w <= 0)
			break;
		off += (size_t) w;
	}
	close(fd);
	c->loglen = 0;
}

static void vf_flush_all(void)
{
	int i;
	for (i = 0; i < vf_nall; ++i)
		vf_flush(vf_all[i]);
}

static void vf_put(struct vf_ctx *c, const char *s, size_t n)
{
	if (c->loglen + n + 1 > c->logcap) {
		size_t nc = (c->logcap ? c->logcap * 2 : 1 << 16) + n;
		char *nl = (char *) realloc(c->log, nc);
		if (!nl)
			_exit(97);
		c->log = nl;
		c->logcap = nc;
	}
	memcpy(c->log + c->loglen, s, n);
	c->loglen += n;
}

static void vf_puts(struct vf_ctx *c, const char *s) { vf_put(c, s, strlen(s)); }

static void vf_putl(struct vf_ctx *c, long v)
{
	char b[32];
	int n = snprintf(b, sizeof b, "%ld", v);
	vf_put(c, b, (size_t) n);
}

static void vf_puthex(struct vf_ctx *c, const void *p, size_t n)
{
	static const char hx[] = "0123456789abcdef";
	const unsigned char *s = (const unsigned char *) p;
	size_t i;
	char b[2];
	if (n == 0) {
		vf_put(c, "-", 1);
		return;
	}
	for (i = 0; i < n; ++i) {
		b[0] = hx[s[i] >> 4];
		b[1] = hx[s[i] & 15];
		vf_put(c, b, 2);
	}
}

/* measurement builds (tools/scanner_coverage.sh): _exit() would lose the gcov counters */
#ifdef VF_GCOV
#ifdef __cplusplus
extern "C" void __gcov_dump(void);
#else
extern void __gcov_dump(void);
#endif
#define VF_GCOV_DUMP() __gcov_dump()
#else
#define VF_GCOV_DUMP() ((void) 0)
#endif

static void vf_finish(struct vf_ctx *c, int code) __attribute__((noreturn));
static void vf_finish(struct vf_ctx *c, int code)
{
	if (c && c->ledger_on == 0 && c->alloc_count) {
		char b[64];
		int n = snprintf(b, sizeof b, "# alloc_requests_at_exit %ld\n", c->alloc_count);
		if (c->loglen + (size_t) n < c->logcap)
			memcpy(c->log + c->loglen, b, (size_t) n), c->loglen += (size_t) n;
	}
	vf_flush_all();
	VF_GCOV_DUMP();
	_exit(code);
}

/* checkpoint events stop the run when the budget is used up (same rule as the model) */
static void vf_checkpoint(struct vf_ctx *c)
{
	if (c->nev >= c->budget) {
		if (c->use_jmp)
			longjmp(c->jmp, 1);
		vf_finish(c, 0);
	}
}

static void vf_endl(struct vf_ctx *c)
{
	vf_put(c, "\n", 1);
	c->nev++;
}

static VF_UNUSED void vf_T(struct vf_ctx *c, int rule, const char *text, int leng, int sc, int lineno)
{
	vf_checkpoint(c);
	c->tord = c->nev;
	if (c->more_pending) {
		c->tok_prefix = c->prev_leng;
		c->more_pending = 0;
	} else
		c->tok_prefix = 0;
	vf_puts(c, "T ");
	vf_putl(c, rule);
	vf_puts(c, " ");
	vf_putl(c, leng);
	vf_puts(c, " ");
	vf_puthex(c, text, leng > 0 ? (size_t) leng : 0);
	vf_puts(c, " ");
	vf_putl(c, sc);
	vf_puts(c, " ");
	if (lineno == VF_NOLN)
		vf_puts(c, "-");
	else
		vf_putl(c, lineno);
	vf_puts(c, " ");
	if (c->flags & 1)
		vf_putl(c, (long) c->delivered);
	else
		vf_puts(c, "-");
	vf_endl(c);
}

static VF_UNUSED void vf_E(struct vf_ctx *c, int sc, int lineno)
{
	vf_checkpoint(c);
	c->tord = c->nev;
	vf_puts(c, "E ");
	vf_putl(c, sc);
	vf_puts(c, " ");
	if (lineno == VF_NOLN)
		vf_puts(c, "-");
	else
		vf_putl(c, lineno);
	vf_endl(c);
}

static VF_UNUSED void vf_R(struct vf_ctx *c, int val, int sc)
{
	vf_checkpoint(c);
	c->tord = c->nev;
	vf_puts(c, "R ");
	vf_putl(c, val);
	vf_puts(c, " ");
	vf_putl(c, sc);
	vf_endl(c);
}

static VF_UNUSED void vf_W(struct vf_ctx *c, int k, int ret)
{
	vf_checkpoint(c);
	vf_puts(c, "W ");
	vf_putl(c, k);
	vf_puts(c, " ");
	vf_putl(c, ret);
	vf_endl(c);
}

/* default rule: its ECHO arrives through the unbuffered yyout cookie */
static VF_UNUSED void vf_D(struct vf_ctx *c, const char *buf, size_t n)
{
	vf_checkpoint(c);
	c->tord = c->nev;
	if (c->more_pending) {
		c->tok_prefix = c->prev_leng;
		c->more_pending = 0;
	} else
		c->tok_prefix = 0;
	vf_puts(c, "D ");
	vf_puthex(c, buf, n);
	vf_endl(c);
}

static VF_UNUSED void vf_ev1(struct vf_ctx *c, const char *k)
{
	vf_puts(c, k);
	vf_endl(c);
}

static VF_UNUSED void vf_evi(struct vf_ctx *c, const char *k, long v)
{
	vf_puts(c, k);
	vf_puts(c, " ");
	vf_putl(c, v);
	vf_endl(c);
}

static VF_UNUSED void vf_X(struct vf_ctx *c, const char *what)
{
	vf_checkpoint(c);
	vf_puts(c, "X ");
	vf_puts(c, what);
	vf_endl(c);
}

static VF_UNUSED void vf_M(struct vf_ctx *c, int leng)
{
	c->more_pending = 1;
	c->prev_leng = leng;
	vf_ev1(c, "M");
}

static VF_UNUSED int vf_less_n(struct vf_ctx *c, int mode, int arg, uint32_t k, int leng)
{
	int lo = c->tok_prefix, n;
	if (lo > leng)
		lo = leng;	/* (only after yymore() at the end of a source: outside the model's domain) */
	if (mode == 3) {
		/* absolute, may lie inside a pending yymore() prefix */
		n = arg < 0 ? 0 : arg;
		return n > leng ? leng : n;
	}
	if (mode == 0)
		n = arg;
	else if (mode == 1)
		n = leng - arg;
	else
		n = lo + (int) (vf_H(c, k) % (uint32_t) (leng - lo + 1));
	if (n < lo)
		n = lo;
	if (n > leng)
		n = leng;
	return n;
}

static VF_UNUSED void vf_L(struct vf_ctx *c, int n, const char *text, int leng)
{
	vf_puts(c, "L ");
	vf_putl(c, n);
	vf_puts(c, " ");
	vf_putl(c, leng);
	vf_puts(c, " ");
	vf_puthex(c, text, leng > 0 ? (size_t) leng : 0);
	vf_endl(c);
	/* a later yymore() appends to what is left */
}

static VF_UNUSED void vf_U(struct vf_ctx *c, const unsigned char *p, int n)
{
	vf_puts(c, "U ");
	vf_puthex(c, p, (size_t) n);
	vf_endl(c);
}

/* returns 0 when the input loop must stop (end value or NUL) */
static VF_UNUSED int vf_I(struct vf_ctx *c, int v)
{
	vf_evi(c, "I", v < 0 ? -1 : v);
	return v > 0;
}

/* ------------------------------------------------------------------ fatal errors */
static const char *vf_fatal_kind(const char *msg)
{
	if (strstr(msg, "scanner jammed")) return "jam";
	if (strstr(msg, "stack underflow")) return "underflow";
	if (strstr(msg, "push-back overflow")) return "pushback";
	if (strstr(msg, "token too large")) return "toobig";
	if (strstr(msg, "scanner uses yyreject") || strstr(msg, "scanner uses REJECT") ||
	    strstr(msg, "scanner uses reject")) return "reject_ovf";
	if (strstr(msg, "out of dynamic memory") || strstr(msg, "out of memory")) return "nomem";
	if (strstr(msg, "input in flex scanner failed")) return "readfail";
	if (strstr(msg, "bad buffer")) return "badbuf";
	return "other";
}

static VF_UNUSED void vf_fatal(struct vf_ctx *c, const char *msg) __attribute__((noreturn));
static VF_UNUSED void vf_fatal(struct vf_ctx *c, const char *msg)
{
	if (c) {
		vf_puts(c, "# fatal: ");
		vf_puts(c, msg);
		vf_put(c, "\n", 1);
		vf_puts(c, "F ");
		vf_puts(c, vf_fatal_kind(msg));
		vf_endl(c);
	}
	vf_finish(c, 42);
}

/* ------------------------------------------------------------------ sources */
static size_t vf_chunk(struct vf_ctx *c, size_t max)
{
	size_t k;
	if (!c->nsched)
		return max;
	k = c->sched[c->schedi % c->nsched];
	c->schedi++;
	if (k == 0 || k > max)
		k = max;
	return k;
}

/* serve a read request from source s; returns bytes, 0 = end, -1 = error (errno set) */
static long vf_src_read(struct vf_src *s, char *buf, size_t max)
{
	struct vf_ctx *c = s->ctx;
	size_t k, left;
	int idx = s->nreads++;
	c->requested++;
	if (s->fail_at >= 0 && idx == s->fail_at) {
		/* (a comment line: the monitor must be able to tell a fault the scanner swallowed
		 * from one that was never reached) */
		vf_puts(c, "# readfault ");
		vf_putl(c, (long) idx);
		vf_puts(c, " ");
		vf_putl(c, (long) s->fail_errno);
		vf_puts(c, "\n");
		errno = s->fail_errno;
		return -1;
	}
	left = s->n - s->pos;
	if (s->soft_at >= 0 && !s->soft_done) {
		if ((long) s->pos == s->soft_at) {
			s->soft_done = 1;
			vf_puts(c, "# soft end of input\n");
			return 0;
		}
		if ((long) s->pos < s->soft_at)
			left = (size_t) s->soft_at - s->pos;
	}
	if (left == 0 || max == 0)
		return 0;
	k = vf_chunk(c, max);
	if (k > left)
		k = left;
	memcpy(buf, s->d + s->pos, k);
	s->pos += k;
	c->delivered += k;
	return (long) k;
}

/* a source is handed out again from its start ("a new file") */
static VF_UNUSED void vf_rewind(struct vf_ctx *c, int i)
{
	c->src[i].pos = 0;
	c->src[i].soft_done = 0;
	if (c->src[i].fp) {
		clearerr(c->src[i].fp);
		if (c->flags & 2) {
			rewind(c->src[i].fp);
			lseek(fileno(c->src[i].fp), 0, SEEK_SET);
		}
	}
}

static struct vf_src *vf_find_src(struct vf_ctx *c, FILE *fp)
{
	int i;
	for (i = 0; i < c->nsrc; ++i)
		if (c->src[i].fp == fp)
			return &c->src[i];
	return NULL;
}

/* YY_INPUT / yyread replacement */
static VF_UNUSED int vf_read(struct vf_ctx *c, FILE *in, char *buf, size_t max)
{
	struct vf_src *s = vf_find_src(c, in);
	long r;
	if (!s) {
		vf_puts(c, "# vf_read: unknown input stream\n");
		vf_finish(c, 96);
	}
	for (;;) {
		r = vf_src_read(s, buf, max);
		if (r >= 0)
			return (int) r;
		if (errno == EINTR)
			continue;
		vf_fatal(c, "input in flex scanner failed");
	}
}

static VF_UNUSED int vf_read_idx(struct vf_ctx *c, int idx, char *buf, size_t max)
{
	long r;
	for (;;) {
		r = vf_src_read(&c->src[idx], buf, max);
		if (r >= 0)
			return (int) r;
		if (errno == EINTR)
			continue;
		return -1;
	}
}

/* read(2) replacement for scanners built with %option read: the descriptor of a source's
 * (real, temporary) file is served from the source with the read schedule and the fault
 * plan, so short reads, EINTR and errors reach the scanner's own read loop */
static VF_UNUSED ssize_t vf_sys_read(int fd, void *buf, size_t n)
{
	struct vf_ctx *c = vf_tls;
	int i;
	if (c && (c->flags & 2)) {
		for (i = 0; i < c->nsrc; ++i)
			if (c->src[i].fp && fileno(c->src[i].fp) == fd)
				return (ssize_t) vf_src_read(&c->src[i], (char *) buf, n);
	}
	return (read)(fd, buf, n);
}

static ssize_t vf_cookie_read(void *ck, char *buf, size_t size)
{
	struct vf_src *s = (struct vf_src *) ck;
	long r = vf_src_read(s, buf, size);
	return (ssize_t) r;
}

static ssize_t vf_cookie_write(void *ck, const char *buf, size_t size)
{
	struct vf_ctx *c = (struct vf_ctx *) ck;
	vf_D(c, buf, size);
	return (ssize_t) size;
}

static int vf_cookie_close(void *ck) { (void) ck; return 0; }

static void vf_open_sources(struct vf_ctx *c)
{
	int i;
	cookie_io_functions_t rf = { vf_cookie_read, NULL, NULL, vf_cookie_close };
	cookie_io_functions_t wf = { NULL, vf_cookie_write, NULL, vf_cookie_close };
	for (i = 0; i < c->nsrc; ++i) {
		if (c->flags & 2) {
			/* a real file, for the read(2) input path */
			FILE *t = tmpfile();
			if (!t)
				_exit(95);
			if (c->src[i].n && fwrite(c->src[i].d, 1, c->src[i].n, t) != c->src[i].n)
				_exit(95);
			fflush(t);
			rewind(t);
			lseek(fileno(t), 0, SEEK_SET);
			c->src[i].fp = t;
			continue;
		}
		c->src[i].fp = fopencookie(&c->src[i], "r", rf);
		if (!c->src[i].fp)
			_exit(95);
	}
	c->out = fopencookie(c, "w", wf);
	if (!c->out)
		_exit(95);
	setvbuf(c->out, NULL, _IONBF, 0);
}

/* ------------------------------------------------------------------ pack file
 * u32 seed, budget, flags, nsched, sched[], nsrc, {len, bytes}, nstr, {len, bytes},
 * alloc_fail_at(+1; 0 = never), nfail, {src, read index, errno}
 */
static uint32_t vf_rd32(FILE *f)
{
	unsigned char b[4];
	if (fread(b, 1, 4, f) != 4)
		_exit(94);
	return (uint32_t) b[0] | ((uint32_t) b[1] << 8) | ((uint32_t) b[2] << 16) | ((uint32_t) b[3] << 24);
}

static VF_UNUSED void vf_load(struct vf_ctx *c, const char *pack, const char *logpath)
{
	FILE *f = fopen(pack, "rb");
	uint32_t i, n, nf;
	if (!f)
		_exit(94);
	memset(c, 0, sizeof *c);
	c->logpath = logpath;
	c->seed = vf_rd32(f);
	c->budget = vf_rd32(f);
	c->flags = vf_rd32(f);
	c->nsched = vf_rd32(f);
	c->sched = (uint32_t *) malloc(sizeof(uint32_t) * (c->nsched + 1));
	for (i = 0; i < c->nsched; ++i)
		c->sched[i] = vf_rd32(f);
	c->nsrc = (int) vf_rd32(f);
	if (c->nsrc > VF_MAXSRC)
		_exit(94);
	for (i = 0; i < (uint32_t) c->nsrc; ++i) {
		n = vf_rd32(f);
		c->src[i].d = (unsigned char *) malloc(n + 1);
		if (n && fread(c->src[i].d, 1, n, f) != n)
			_exit(94);
		c->src[i].n = n;
		c->src[i].id = (int) i;
		c->src[i].ctx = c;
		c->src[i].fail_at = -1;
		c->src[i].soft_at = -1;
	}
	c->nstr = (int) vf_rd32(f);
	if (c->nstr > VF_MAXSTR)
		_exit(94);
	for (i = 0; i < (uint32_t) c->nstr; ++i) {
		n = vf_rd32(f);
		/* exact-size heap copy + 2 for scan_buffer users: red zones right behind */
		c->str[i] = (unsigned char *) malloc(n + 2);
		if (n && fread(c->str[i], 1, n, f) != n)
			_exit(94);
		c->str[i][n] = c->str[i][n + 1] = 0;
		c->strn[i] = n;
	}
	c->alloc_fail_at = (long) vf_rd32(f);
	c->bufsize = vf_rd32(f);
	nf = vf_rd32(f);
	for (i = 0; i < nf; ++i) {
		uint32_t s = vf_rd32(f), at = vf_rd32(f), en = vf_rd32(f);
		if (s < (uint32_t) c->nsrc && en == 0xFFFFu) {
			c->src[s].soft_at = (long) at;
		} else if (s < (uint32_t) c->nsrc) {
			c->src[s].fail_at = (int) at;
			c->src[s].fail_errno = (int) en;
		}
	}
	fclose(f);
	vf_open_sources(c);
	if (vf_nall < 64)
		vf_all[vf_nall++] = c;
	/* truncate log */
	{
		int fd = open(logpath, O_WRONLY | O_CREAT | O_TRUNC, 0644);
		if (fd >= 0)
			close(fd);
	}
}

/* ------------------------------------------------------------------ allocator ledger */
static VF_UNUSED void *vf_alloc(struct vf_ctx *c, size_t n)
{
	void *p;
	c->alloc_count++;
	if (c->alloc_fail_at && c->alloc_count == c->alloc_fail_at) {
		vf_puts(c, "# alloc fault injected at request ");
		vf_putl(c, c->alloc_count);
		vf_put(c, "\n", 1);
		vf_flush(c);	/* (the scanner may crash on the NULL before anything else is written) */
		return NULL;
	}
	p = malloc(n ? n : 1);
	c->nalloc++;
	if (p && c->nblk < VF_MAXLEDGER) {
		c->blk[c->nblk].p = p;
		c->blk[c->nblk].n = n;
		c->nblk++;
		c->live_bytes += n;
	}
	return p;
}

static int vf_ledger_find(struct vf_ctx *c, void *p)
{
	int i;
	for (i = c->nblk - 1; i >= 0; --i)
		if (c->blk[i].p == p)
			return i;
	return -1;
}

static VF_UNUSED void *vf_realloc(struct vf_ctx *c, void *p, size_t n)
{
	void *q;
	int i;
	c->alloc_count++;
	if (c->alloc_fail_at && c->alloc_count == c->alloc_fail_at) {
		vf_puts(c, "# alloc fault injected at request ");
		vf_putl(c, c->alloc_count);
		vf_put(c, "\n", 1);
		vf_flush(c);	/* (the scanner may crash on the NULL before anything else is written) */
		return NULL;
	}
	c->nrealloc++;
	if (p) {
		i = vf_ledger_find(c, p);
		if (i < 0) {
			c->bad_free++;
			vf_puts(c, "# ledger: yyrealloc of unknown pointer\n");
			vf_ev1(c, "A badrealloc");
			return realloc(p, n ? n : 1);
		}
		q = realloc(p, n ? n : 1);
		if (q) {
			c->live_bytes += n;
			c->live_bytes -= c->blk[i].n;
			c->blk[i].p = q;
			c->blk[i].n = n;
		}
		return q;
	}
	return vf_alloc(c, n);
}

static VF_UNUSED void vf_free(struct vf_ctx *c, void *p)
{
	int i;
	if (!p)
		return;
	c->nfree++;
	i = vf_ledger_find(c, p);
	if (i < 0) {
		c->bad_free++;
		vf_puts(c, "# ledger: yyfree of unknown pointer\n");
		vf_ev1(c, "A badfree");
		return;
	}
	c->live_bytes -= c->blk[i].n;
	c->blk[i] = c->blk[c->nblk - 1];
	c->nblk--;
	free(p);
}

/* report: A live <blocks> <allocs> <reallocs> <frees> */
static VF_UNUSED void vf_ledger_report(struct vf_ctx *c)
{
	vf_puts(c, "# alloc_requests ");
	vf_putl(c, c->alloc_count);
	vf_put(c, "\n", 1);
	vf_puts(c, "A live ");
	vf_putl(c, c->nblk);
	vf_puts(c, " ");
	vf_putl(c, c->nalloc);
	vf_puts(c, " ");
	vf_putl(c, c->nrealloc);
	vf_puts(c, " ");
	vf_putl(c, c->nfree);
	vf_endl(c);
}

/* between sessions (scanner destroyed, then used again as if fresh) */
static VF_UNUSED void vf_free_slotmem(struct vf_ctx *c)
{
	int i;
	for (i = 0; i < VF_MAXSLOT; ++i) {
		if (c->slotmem[i]) {
			free(c->slotmem[i]);
			c->slotmem[i] = 0;
		}
		c->slot[i] = 0;
		c->slotsrc[i] = -1;
	}
	c->bdepth = 0;
}

static VF_UNUSED void vf_reset_session(struct vf_ctx *c)
{
	int i;
	c->wrapk = 0;
	c->more_pending = 0;
	c->tok_prefix = 0;
	c->schedi = 0;
	for (i = 0; i < c->nsrc; ++i)
		vf_rewind(c, i);
}

/* ------------------------------------------------------------------ crash hooks */
static void vf_sig(int sig)
{
	vf_flush_all();
	signal(sig, SIG_DFL);
	raise(sig);
}

#ifdef __cplusplus
extern "C"
#endif
void __asan_on_error(void);
void __asan_on_error(void) { vf_flush_all(); }

static VF_UNUSED void vf_install(void)
{
#if !defined(__SANITIZE_ADDRESS__) && !defined(__SANITIZE_THREAD__)
	signal(SIGSEGV, vf_sig);
	signal(SIGBUS, vf_sig);
	signal(SIGFPE, vf_sig);
	signal(SIGILL, vf_sig);
#endif
	signal(SIGABRT, vf_sig);
	atexit(vf_flush_all);
}

#endif /* VF_RT_H */
