#!/bin/sh
# usage: sweep.sh <seed> <tier> [ids...]   -- run checks sequentially, print one line each
seed=$1; tier=$2; shift 2
ids="$@"; [ -z "$ids" ] && ids="C01 C02 C03 C04 C05 C06 C07 C08 C09 C10 C11 C12 C13 C14 C15 C16 C17 C18 C19 C20"
cd /verif
# a failing "flex -o /dev/null" run as root unlinks /dev/null (flex removes its output on error)
[ -c /dev/null ] || { rm -f /dev/null; mknod -m 666 /dev/null c 1 3; }
noev=; [ "$seed" != 1 ] && noev=1
for id in $ids; do
  s=$(date +%s)
  out=$(VERIF_NO_EVIDENCE=${VERIF_NO_EVIDENCE-$noev} VERIF_SEED=$seed timeout 7200 python3 -m vf.check $id --tier $tier 2>&1)
  rc=$?
  e=$(date +%s)
  echo "seed=$seed $id rc=$rc $((e-s))s :: $(echo "$out" | grep -E "^(C[0-9]+ |VIOLATION|INCONC|HARNESS|KNOWN)" | head -3 | tr '\n' '|' | cut -c1-400)"
done
