#!/usr/bin/env python3
"""Confirm a seeded change and run checks against it.

usage: try_seed.py <seed-dir> <k> <PROPERTY> [--checks C01,C02] [--tier quick] [--name NAME]

Steps (all in a fresh buildable scratch copy of /repo, never in /repo itself):
  1. apply <seed-dir>/seed<PROPERTY>_<k>.diff, rebuild, run the whole test suite;
  2. run the demonstration against the changed tree (must fail) and the clean tree (must pass);
  3. run the named checks with VERIF_REPO pointing at the changed tree;
  4. store patch, demonstration and meta.json under /verif/seeded/<NAME>/.
"""
import sys, os, subprocess, json, shutil, argparse, time

ap = argparse.ArgumentParser()
ap.add_argument("seeddir")
ap.add_argument("k")
ap.add_argument("prop")
ap.add_argument("--checks", default=None)
ap.add_argument("--tier", default="quick")
ap.add_argument("--name", default=None)
ap.add_argument("--keep", action="store_true")
a = ap.parse_args()

prop = a.prop
name = a.name or "%s_%s" % (prop, a.k)
diff = os.path.join(a.seeddir, "seed%s_%s.diff" % (prop, a.k))
demo = os.path.join(a.seeddir, "seed%s_%s" % (prop, a.k))
checks = (a.checks or prop).split(",")
wt = "/tmp/wt-try-%s" % name
dst = os.path.join("/verif/seeded", name)


def sh(cmd, **kw):
    return subprocess.run(cmd, shell=isinstance(cmd, str), capture_output=True, text=True, **kw)


subprocess.run(["git", "-C", "/repo", "worktree", "remove", "--force", wt], capture_output=True)
shutil.rmtree(wt, ignore_errors=True)
r = sh(["/verif/tools/mkscratch.sh", wt])
if r.returncode != 0:
    print("mkscratch failed", r.stderr)
    sys.exit(2)
meta = {"property": prop, "name": name, "diff": os.path.basename(diff), "ran": []}
try:
    # demo on the clean tree first
    r0 = sh(["sh", "./RUNTESTS.sh"], cwd=wt, timeout=1200)
    if "BUILD FAILED" in r0.stdout:
        r0 = sh(["sh", "./RUNTESTS.sh"], cwd=wt, timeout=1200)
    meta["tests_clean"] = r0.stdout.strip().replace("\n", " ")
    d0 = sh(["timeout", "120", "sh", os.path.join(demo, "demo.sh"), wt + "/src/flex", wt + "/src"],
            cwd=demo)
    meta["demo_clean_rc"] = d0.returncode
    ra = sh(["git", "-C", wt, "apply", diff])
    if ra.returncode != 0:
        print("patch does not apply:", ra.stderr)
        meta["applies"] = False
        sys.exit(2)
    meta["applies"] = True
    r1 = sh(["sh", "./RUNTESTS.sh"], cwd=wt, timeout=1200)
    if "BUILD FAILED" in r1.stdout:
        r1 = sh(["sh", "./RUNTESTS.sh"], cwd=wt, timeout=1200)
    meta["tests_with_change"] = r1.stdout.strip().replace("\n", " ")
    d1 = sh(["timeout", "120", "sh", os.path.join(demo, "demo.sh"), wt + "/src/flex", wt + "/src"],
            cwd=demo)
    meta["demo_changed_rc"] = d1.returncode
    print("tests clean   :", meta["tests_clean"])
    print("tests changed :", meta["tests_with_change"])
    print("demo clean rc=%s changed rc=%s" % (d0.returncode, d1.returncode))
    meta["confirmed"] = ("FAIL:  0" in meta["tests_with_change"] and "PASS:  257" in meta["tests_with_change"]
                         and d0.returncode == 0 and d1.returncode != 0)
    results = {}
    env = dict(os.environ)
    env["VERIF_REPO"] = wt
    env["VERIF_NO_EVIDENCE"] = "1"
    for c in checks:
        t0 = time.time()
        r = subprocess.run(["timeout", "3000", "python3", "-m", "vf.check", c, "--tier", a.tier],
                           cwd="/verif", env=env, capture_output=True, text=True)
        viol = [l for l in r.stdout.splitlines() if l.startswith("VIOLATION")]
        first = ""
        lines = r.stdout.splitlines()
        for i, l in enumerate(lines):
            if l.startswith("VIOLATION"):
                first = " | ".join(lines[i:i + 2])[:600]
                break
        results[c] = {"rc": r.returncode, "violations": len(viol), "first": first,
                      "wall_s": round(time.time() - t0, 1), "tier": a.tier}
        print("check %s (%s): rc=%s violations=%d  %s" % (c, a.tier, r.returncode, len(viol), first[:300]))
        meta["ran"].append("VERIF_REPO=%s python3 -m vf.check %s --tier %s" % (wt, c, a.tier))
    meta["checks"] = results
    os.makedirs(dst, exist_ok=True)
    shutil.copy(diff, os.path.join(dst, "patch.diff"))
    if os.path.isdir(demo):
        shutil.rmtree(os.path.join(dst, "demo"), ignore_errors=True)
        shutil.copytree(demo, os.path.join(dst, "demo"))
    old = {}
    mp = os.path.join(dst, "meta.json")
    if os.path.exists(mp):
        old = json.load(open(mp))
    for k in ("needs", "what"):
        if k in old:
            meta[k] = old[k]
    if "checks" in old:
        merged = dict(old["checks"])
        merged.update(meta["checks"])
        meta["checks"] = merged
    json.dump(meta, open(mp, "w"), indent=1)
finally:
    if not a.keep:
        subprocess.run(["git", "-C", "/repo", "worktree", "remove", "--force", wt], capture_output=True)
        shutil.rmtree(wt, ignore_errors=True)
