#!/usr/bin/env python3
"""Round 6 of seeded changes: print the sub-agent prompt for one property.

usage: round6.py <PROPERTY> <worktree> [k]

The prompt holds the property text, the ideas already taken for that property (from
seeded/*/meta.json) and a list of functions no earlier change touched, nothing else.
"""
import sys, json, glob, subprocess, os

TARGETS = {
 "C01": "src/nfa.c mkclos() mkposcl() mkrep() link_machines() copysingl() mkbranch() mkxtion(); src/parse.y the 're', 'series', 'ccl', 'ccl_expr', 'string' productions; src/scan.l <QUOTE>, <FIRSTCCL>, <CCL>, <NUM>, <GROUP_WITH_PARAMS> rules; src/misc.c htoi() otoi() is_hex_digit(); src/ccl.c ccladd() cclnegate() ccl_set_union(); src/scanflags.c; src/ecs.c mkeccl() mkechar() cre8ecs() ccl2ecl()",
 "C02": "src/tblcmp.c bldtbl() tbldiff() mkprot() mv2front() mktemplate() cmptmps() place_state() mkdeftbl() inittbl(); src/gen.c genftbl() genecs() optimize_pack() and the emission of yy_meta / yy_def / yy_base; src/ecs.c; the state-stepping macros of src/cpp-flex.skl and src/c99-flex.skl (M4_GEN_NEXT_COMPRESSED_STATE, M4_GEN_NEXT_MATCH_FULLSPD, the full-table loop) -- but not yy_get_previous_state() or yy_try_NUL_trans()",
 "C03": "src/cpp-flex.skl yy_create_buffer() yy_init_buffer() (how a buffer becomes interactive), the read(2) variant of yyread(), the C++ LexerInput() batch path, the interactive test of the match loop and the macros main.c defines for it (M4_MODE_FIND_ACTION..., M4_MODE_INTERACTIVE...), yy_fill_buffer handling; src/c99-flex.skl yy_get_next_buffer() where it differs from the cpp one, yy_create_buffer(), yy_init_buffer()",
 "C04": "src/misc.c cclcmp() check_char(); src/ecs.c ccl2ecl() mkeccl(); src/gen.c genecs() and the emission of yy_NUL_trans / YY_NUL_EC / yy_ec; src/cpp-flex.skl and src/c99-flex.skl YY_SC_TO_UI, CHAR_MAP macros, the yyinput() NUL test of the c99 and C++ variants; src/scan.l escapes inside <CCL>/<QUOTE>; src/parse.y ccl ranges over 8-bit characters",
 "C05": "src/parse.y namelist2, sconname, flexrule; src/sym.c scinstal() sclookup() addsym() hashfunct(); src/dfa.c ntod() 'Create the first states'; src/cpp-flex.skl yy_pop_state() yy_top_state(); src/c99-flex.skl yy_pop_state() yy_top_state() yybegin handling; src/scan.l <SC> / <SCNAME> rules; emission of the start-condition #defines (src/main.c, src/buf.c, src/misc.c out_m4_define())",
 "C06": "src/nfa.c mark_beginning_as_normal() add_accept() and the variable-trailing-context branch of finish_rule(); src/cpp-flex.skl yyatbol()/yysetbol()/YY_AT_BOL macros, yy_set_bol, M4_HOOK_CHAR_REWIND; src/c99-flex.skl find_rule loop and yysetbol/yyatbol; src/scan.l detection of '$' and '/' in <SECT2>; src/dfa.c ntod() handling of the beginning-of-line start states (todo_head / num_start_states)",
 "C07": "src/scan.l CHECK_REJECT / CHECK_YYREJECT; src/gen.c gentabs() in-code emission of yy_accept / yy_acclist (not the serialized copy); src/cpp-flex.skl allocation and reset of yy_state_buf / yy_state_ptr in yylex(), yy_lp handling; src/c99-flex.skl REJECT support outside the variable-trailing-context block; src/dfa.c ntod() where accepting sets are stored (dfaacc, accsiz)",
 "C08": "src/cpp-flex.skl the second yyless definition (outside yylex), the yymore() macro and YY_MORE_ADJ, the C++ yyunput()/yyinput() members; src/c99-flex.skl yyunput() yyinput() yymore; src/main.c yymore_really_used / yytext_is_array handling; YY_DO_BEFORE_ACTION for %pointer",
 "C09": "src/cpp-flex.skl the newline-counting block after YY_DO_BEFORE_ACTION (M4_MODE_YYLINENO), YY_LINENO_REWIND_TO, the line adjustment in yyunput(), yyset_lineno()/yyget_lineno(); src/gen.c mkeoltbl() and emission of yy_rule_can_match_eol; src/ccl.c ccladd() cclnegate() newline flags; src/parse.y places that set rule_has_nl (string, ccl, CCE_ expressions); the c99 equivalents in src/c99-flex.skl",
 "C10": "src/cpp-flex.skl case EOB_ACT_END_OF_FILE / EOB_ACT_LAST_MATCH in yylex(), YY_NEW_FILE, yy_init_buffer(), the default yywrap / yyterminate macros, the C++ yywrap; src/main.c emission of the end-of-file case arms (M4_HOOK_EOF_STATE_CASE_ARM); the c99 equivalents in src/c99-flex.skl",
 "C11": "src/cpp-flex.skl yy_create_buffer() yy_init_buffer() yy_delete_buffer() yy_load_buffer_state() yyensure_buffer_stack() yy_scan_string(); the C++ members yy_switch_to_buffer(istream), switch_streams(), yyrestart(istream); src/c99-flex.skl yy_switch_to_buffer() yypush_buffer_state() yypop_buffer_state() yy_flush_buffer()",
 "C12": "src/cpp-flex.skl yy_init_globals() yylex_init() and the yyget_*/yyset_* accessors; src/c99-flex.skl yylex_init_extra() yylex_destroy() yy_init_globals(); the C++ ctor_common(), destructor and src/FlexLexer.h; the list of names M4_GEN_PREFIX renames (other than the lloc ones)",
 "C13": "src/cpp-flex.skl yyensure_buffer_stack() yy_delete_buffer() yy_pop_state() yytables_destroy() yy_init_globals(), the allocation of yy_state_buf in yylex() (YY_STATE_BUF_SIZE), the n+2 allocation of yy_scan_bytes(); src/tblcmp.c mkdeftbl(); src/gen.c genftbl() and the jam rows of full tables; the C++ destructor; the c99 equivalents in src/c99-flex.skl",
 "C14": "the NULL checks of src/cpp-flex.skl yy_create_buffer() yyensure_buffer_stack() yy_scan_buffer() yy_scan_bytes() yylex() (state buffer) yylex_init(); the read(2) variant of yyread() and its EINTR loop; yytables_fload(); the c99 equivalents in src/c99-flex.skl; the C++ class's allocations",
 "C15": "src/tables.c yytbl_hdr_fwrite() yytbl_data_compress() yytbl_write32/16/8() yytbl_data_init() yytbl_calc_total_len(); src/gen.c mkssltbl() mkecstbl() mkftbl() mkeoltbl(); src/dfa.c ntod() yynxt_tbl; src/cpp-flex.skl yytbl_dmap_lookup() and the yydmap table, yytables_fload(), yytables_destroy(), yytbl_read8(), yytbl_calc_total_len()",
 "C16": "src/parse.y 'error' productions, synerr() format_synerr() line_pinpoint(); src/scan.l RETURNNAME / MAXLINE checks and bad iteration values in <NUM>; src/nfa.c mkstate() limit check; src/misc.c allocate_array() reallocate_array() flexerror() flexfatal() lerr() lerr_fatal(); src/filter.c filter_apply_chain() filter_create_ext() filter_create_int(); src/sym.c ndinstal() scinstal() (names declared twice); src/buf.c",
 "C17": "src/main.c the '-s given but default rule can be matched' test and the way warnings are switched off (nowarn); src/misc.c / src/parse.y warn() and line_warning() callers other than the dropped-duplicate logic; src/parse.y creation of the default rule ('goal' production) and the places that set variable_trail_rule / reject; src/nfa.c add_accept(); src/dfa.c ntod() where the jam/default transitions are built; src/scan.l the warn/nowarn/default/nodefault options",
 "C18": "src/tblcmp.c inittbl() bldtbl() mktemplate(); src/gen.c genftbl() genecs(); src/sym.c hash tables and any iteration over them; src/dfa.c arrays allocated in ntod() (dset, dss, dfasiz, ...); src/ecs.c; src/tables.c header fields; src/buf.c; src/filter.c; src/main.c what is written into the output besides tables",
 "C19": "src/options.c flexopts[]; src/scan.l <OPTION> rules; src/parse.y 'option' production; the cases of src/main.c flexinit() no earlier change touched (anything except --main, --yyclass, -w); the M4_YY_NO_* guards of src/cpp-flex.skl other than get/set_column and lloc; src/filter.c the #undef list of the header; src/buf.c buf_m4_define(); src/misc.c action_define() out_m4_define()",
 "C20": "src/scan.l <ACTION>, <ACTION_STRING>, <PERCENT_BRACE_ACTION>, <CODEBLOCK>, <CODEBLOCK_MATCH_BRACE>, <EXTENDED_COMMENT>, <LINEDIR>; src/misc.c line_directive_out() skelout(); src/main.c the section 3 wrapper and %top handling; src/buf.c buf_linedir(); src/parse.y build_eof_action() line directive",
}


def main():
    pid, d = sys.argv[1], sys.argv[2]
    k = sys.argv[3] if len(sys.argv) > 3 else "9"
    taken = []
    for f in sorted(glob.glob("/verif/seeded/%s_*/meta.json" % pid)):
        m = json.load(open(f))
        if m.get("what"):
            taken.append(m["what"].rstrip("."))
    avoid = " || ".join(taken)
    extra = ("Make your change in code that nobody has used for this yet - choose among: " + TARGETS[pid] +
             ". (If none of these can break the property, say so and pick the closest function that can, "
             "but it must not be one the ideas above already used.)")
    here = os.path.dirname(os.path.abspath(__file__))
    out = subprocess.run([sys.executable, os.path.join(here, "seedprompt.py"), pid, d, "1", k, avoid, extra],
                         capture_output=True, text=True, check=True).stdout
    sys.stdout.write(out)


main()
