#!/bin/sh
# usage: coverage.sh [tier]  -- run every check once with a gcov-instrumented flex and summarise
# which lines of flex's generator sources the workloads executed (coverage/flex_generator.json).
# Measurement only: verdicts of this run are ignored, evidence files are not touched.
tier=${1:-quick}
cd /verif
export VERIF_FLEX_VARIANT=cov VERIF_NO_EVIDENCE=1 VERIF_SEED=${VERIF_SEED:-1}
root=$(python3 -c "
import sys; sys.path.insert(0,'/verif')
from vf import build
print(build.get_flex('cov').root)")
find "$root" -name '*.gcda' -delete
for id in C01 C02 C03 C04 C05 C06 C07 C08 C09 C10 C11 C12 C13 C14 C15 C16 C17 C18 C19 C20; do
  timeout 7200 python3 -m vf.check $id --tier $tier >/dev/null 2>&1
  echo "$id done"
done
mkdir -p /verif/coverage
cd "$root" && for f in buf ccl dfa ecs filter gen main misc nfa options parse regex scanflags scanopt skeletons sym tables tables_shared tblcmp yylex stage1scan; do
  gcov -b -c $f.c 2>/dev/null | awk -v f=$f '/^File/ {file=$2} /^Lines executed/ && file ~ f".[cly]" {print f, $2, $4; exit}'
done > /tmp/cov_lines.txt
python3 - <<'PY'
import json, re
rows = {}
for l in open("/tmp/cov_lines.txt"):
    p = l.split()
    if len(p) >= 3:
        m = re.search(r"([\d.]+)%", p[1])
        rows[p[0] + ".c"] = {"lines_executed_pct": float(m.group(1)), "lines": int(p[2])}
tot = sum(r["lines"] for r in rows.values())
cov = sum(r["lines"] * r["lines_executed_pct"] / 100 for r in rows.values())
out = {"what": "line coverage (gcov) of flex's generator sources under one pass of all 20 checks",
       "tier": "%s" % __import__("os").environ.get("TIER", "quick"),
       "files": rows, "total_lines": tot, "total_pct": round(100 * cov / max(tot, 1), 1)}
json.dump(out, open("/verif/coverage/flex_generator.json", "w"), indent=1)
print(json.dumps(out, indent=1))
PY
