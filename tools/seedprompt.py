#!/usr/bin/env python3
"""Print the prompt for a seeding sub-agent: property text only."""
import json, sys
pid = sys.argv[1]
d = sys.argv[2]
n = sys.argv[3] if len(sys.argv) > 3 else "2"
k0 = int(sys.argv[4]) if len(sys.argv) > 4 else 1          # number of the first change
AVOID = sys.argv[5] if len(sys.argv) > 5 else ""           # descriptions of changes already taken
EXTRA = sys.argv[6] if len(sys.argv) > 6 else ""           # extra constraint on where to change
for l in open("/verif/properties.jsonl"):
    p = json.loads(l)
    if p["id"] == pid:
        break
anch = "; ".join("%s (%s)" % (m.get("name"), m.get("where")) for m in p["anchors"]["mechanism"])
print(f"""You are helping to evaluate a verification effort for the open-source lexer generator flex (westes/flex, C code). Your job is to play the role of a developer who introduces a subtle regression.

Working directory: {d}  (a private, fully built scratch copy of the flex repository; work ONLY inside it, do not touch /repo or /verif, and do not read anything under /verif). The flex sources are in {d}/src (skeletons cpp-flex.skl / c99-flex.skl are compiled into flex; the manual is doc/flex.texi). `{d}/RUNTESTS.sh` rebuilds flex from that tree and re-runs the project's complete test suite (257 tests, ~10 s) and prints the totals. The built binary is {d}/src/flex. Always run flex and generated scanners under `timeout 20` so nothing can hang your session, and never print more than a few hundred lines of output.

The property that must be BROKEN:

  {p['id']}: {p['title']}
  Statement: {p['statement']}
  Quantified over: {p['quantifier']['text']}
  Why the existing tests cannot settle it: {p['why_tests_cant']}
  Mechanisms in the code that are meant to make it hold: {anch}

Task: produce {n} DIFFERENT, independent source changes to flex (each one a small patch to files under src/, as a developer might make by mistake or through an over-eager "simplification/optimisation"), such that for each change:
  1. flex still builds and ALL 257 existing tests still pass (`./RUNTESTS.sh` shows FAIL: 0) -- verify this;
  2. the property above is violated for some input/configuration, demonstrated by a small self-contained demonstration (a .l file plus a shell script `demo.sh` that takes the path of a flex binary and of its source dir as $1 and $2, builds the scanner with it, runs it on a fixed input, and exits 0 if behaviour is correct / non-zero if the property is violated) that FAILS with your change and PASSES on the unmodified tree;
  3. the change needs something specific to manifest -- an unusual input, a particular option combination, a multi-step sequence of API calls, a boundary size, two cooperating sites that each look fine alone -- NOT something that ordinary use (or the test suite) would expose at once. Prefer realistic bugs: off-by-one, a dropped special case, a wrong condition, a missing reset/restore, a wrong table width, a swapped argument.
{("Do NOT reuse any of these ideas, which have already been done by someone else: " + AVOID + chr(10)) if AVOID else ""}{(EXTRA + chr(10)) if EXTRA else ""}Make the {n} changes different in kind and in the code they touch (e.g. one in the generator C code, one in a skeleton).

Procedure for each change k (k = {k0}..{k0 + int(n) - 1}): start from a clean tree (`git -C {d} checkout -- src`), edit, run ./RUNTESTS.sh, write the demo, check the demo fails with the change, save `git -C {d} diff -- src > {d}/seed{pid}_k.diff`, then `git -C {d} checkout -- src`, rebuild with ./RUNTESTS.sh and check the demo passes on the clean tree. Put the demo files in {d}/seed{pid}_k/ (spec .l, demo.sh, any input files). Leave the tree clean at the end.

Final answer: for each change, the path of the diff, the demo directory, one paragraph saying what was changed, what is needed for it to manifest, and the exact commands you ran to confirm (test totals with the change; demo result with and without the change). Be concise.""")
