#!/usr/bin/env python3
"""Rewrite the generated tables of DESIGN.md (between <!-- NAME:BEGIN --> / <!-- NAME:END -->
markers) from known_findings.json and seeded/*/meta.json."""
import json, os, re
V = "/verif"
d = json.load(open(V + "/known_findings.json"))
esc = lambda t: t.replace("|", "\\|")
fixed = ["| id | property | commit | what failed |", "|---|---|---|---|"]
known = ["| id | property | what fails | why not repaired |", "|---|---|---|---|"]
for e in d["findings"]:
    if e["status"] == "fixed":
        fixed.append("| %s | %s | `%s` | %s |" % (e["id"], e["property"], e["commit"], esc(e["what"])))
    else:
        known.append("| %s | %s | %s | %s |" % (e["id"], e["property"], esc(e["what"]),
                                              esc(e.get("why_not_fixed", ""))))
seeds = ["| name | change | needs | own check (quick) | other checks that fire |", "|---|---|---|---|---|"]
n = own = 0
for name in sorted(os.listdir(V + "/seeded")):
    m = json.load(open("%s/seeded/%s/meta.json" % (V, name)))
    prop = m.get("property", name.split("_")[0])
    caught = [c for c, v in m.get("checks", {}).items() if v.get("rc") == 1]
    n += 1
    own += prop in caught
    seeds.append("| %s | %s | %s | %s | %s |" % (
        name, esc(m.get("what", "")), esc(m.get("needs", "")),
        "caught" if prop in caught else "not caught",
        ", ".join(c for c in caught if c != prop) or "-"))
seeds.append("")
seeds.append("%d changes; %d caught by the check of the property they were written against, "
             "the others by the check named in the last column." % (n, own))
s = open(V + "/DESIGN.md").read()
for nm, rows in (("FIXTABLE", fixed), ("KNOWNTABLE", known), ("SEEDTABLE", seeds)):
    pat = re.compile(r"(<!-- %s:BEGIN -->\n).*?(<!-- %s:END -->)" % (nm, nm), re.S)
    assert pat.search(s), nm
    s = pat.sub(lambda mo: mo.group(1) + "\n".join(rows) + "\n" + mo.group(2), s)
open(V + "/DESIGN.md", "w").write(s)
print("tables:", len(fixed) - 2, "fixed,", len(known) - 2, "known,", n, "seeds")
