#!/bin/sh
# usage: reseed.sh <seed-name> <check>[,<check>...] [tier]  -- run checks against /repo + seeded/<name>/patch.diff
# (scratch worktree, removed afterwards; evidence untouched).  Prints one line per check.
name=$1; checks=$2; tier=${3:-quick}
wt=/tmp/wt-re-$name
git -C /repo worktree remove --force $wt >/dev/null 2>&1; rm -rf $wt
/verif/tools/mkscratch.sh $wt >/dev/null 2>&1 || { echo "mkscratch failed"; exit 2; }
git -C $wt apply /verif/seeded/$name/patch.diff || { echo "patch does not apply"; git -C /repo worktree remove --force $wt; exit 2; }
cd /verif
for c in $(echo $checks | tr , ' '); do
  out=$(VERIF_REPO=$wt VERIF_NO_EVIDENCE=1 timeout 3000 python3 -m vf.check $c --tier $tier 2>&1)
  rc=$?
  echo "$name $c rc=$rc $(echo "$out" | grep -A1 '^VIOLATION' | head -2 | tr '\n' ' ' | cut -c1-400)"
done
git -C /repo worktree remove --force $wt >/dev/null 2>&1; rm -rf $wt
