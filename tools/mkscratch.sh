#!/bin/sh
# usage: mkscratch.sh <dir>   -- buildable scratch worktree of /repo (tracked files + build products)
set -e
d=$1
git -C /repo worktree add -f "$d" HEAD -q
rsync -a --exclude .git /repo/ "$d"/
cd "$d"
grep -rl '/repo' --include=Makefile --include=config.status --include=libtool . 2>/dev/null | xargs -r sed -i "s#/repo#$d#g"
cat > "$d/RUNTESTS.sh" <<EOT
#!/bin/sh
# rebuilds flex from this tree and re-runs the whole test suite (about 10 s)
cd "$d" && make -j8 -C src >/tmp/\$(basename $d).build.log 2>&1 || { echo BUILD FAILED; tail -20 /tmp/\$(basename $d).build.log; exit 1; }
make -C tests clean >/dev/null 2>&1
make -j8 check > "$d/check.log" 2>&1
grep "^# \\(TOTAL\\|PASS\\|FAIL\\|ERROR\\)" "$d/check.log"
grep "^FAIL\\|^ERROR" "$d/check.log" | head
EOT
chmod +x "$d/RUNTESTS.sh"
echo "$d ready"
