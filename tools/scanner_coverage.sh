#!/bin/sh
# usage: scanner_coverage.sh [tier] [ids...] -- run the checks once with gcov-instrumented *scanners*
# and summarise which lines of the generated run-time code (the skeletons, as instantiated) were
# executed (coverage/scanner_runtime.json).  Measurement only: verdicts of this run are ignored,
# evidence files are not touched.
tier=${1:-quick}; [ $# -gt 0 ] && shift
ids="$@"; [ -z "$ids" ] && ids="C01 C02 C03 C04 C05 C06 C07 C08 C09 C10 C11 C12 C13 C14 C15"
cd /verif
covdir=$(mktemp -d /var/tmp/vf-scov-XXXXXX)
export VERIF_SCANNER_COV=$covdir VERIF_NO_EVIDENCE=1 VERIF_SEED=${VERIF_SEED:-1}
for id in $ids; do
  timeout 7200 python3 -m vf.check $id --tier $tier 2>&1 | grep -E "^C[0-9]+ " | head -1
done
mkdir -p /verif/coverage
python3 - <<PY
import sys; sys.path.insert(0, "/verif")
from vf import scov
out = scov.merge("/verif/coverage/scanner_runtime.json")
print("scanners measured:", out["scanners_measured"])
for g, v in out["groups"].items():
    print(g, v["pct"], "%% of", v["lines"], "lines")
PY
rm -rf "$covdir"
