#!/usr/bin/env python3
"""Regenerate /verif/MANIFEST.json from the table below."""
import json, os
ROOT = os.path.dirname(os.path.dirname(os.path.abspath(__file__)))
props = [json.loads(l) for l in open(os.path.join(ROOT, "properties.jsonl"))]

STREAM_NOTE = ("Trusted base: the Python reference model in vf/model.py + vf/pat.py (written from "
               "doc/flex.texi only; DESIGN.md Appendix A lists every semantic decision), the C "
               "harness runtime vf/harness/vf_rt.h, gcc and its ASan/UBSan runtimes.  Verdicts "
               "cover only the executions produced; cases outside the documented domain are "
               "not generated or not judged (DESIGN.md 2.3).")

OTHER_NOTE = ("Trusted base: the check's own generators and oracles under vf/props (finite tables are "
              "transcribed from doc/flex.texi), gcc/g++, nm, valgrind, strace, the sanitizer runtimes.  "
              "Verdicts cover only the executions produced.")

CHECKS = {
    "C01": dict(cat="exploration", tech="differential co-simulation against a reference model (random rule sets + model-guided inputs) under ASan/UBSan",
                text="Random rule sets over the whole documented pattern language (plus 'large' profiles that force every generator array to grow) are printed in random documented spellings, compiled by the flex built from the working tree, and every scanner run is co-simulated event by event with an independent NFA-based model of the manual's matching rules; any sanitizer report, crash, hang or divergence is a violation.",
                ref="4 C01"),
    "C03": dict(cat="exploration", tech="co-simulation under varied read schedules/buffer sizes/input paths + look-ahead bound monitor",
                text="Each input is delivered under many (read-size schedule, buffer size) pairs, down to 1-byte reads into a 1-byte buffer, and through YY_INPUT, user yyread, stdio fread, stdio getc and read(2); every run must reproduce the buffering-free model's stream; the same bytes are also handed over in memory (yy_scan_bytes / yy_scan_string / yy_scan_buffer), with a yymore() pending at the end of the text.  Interactive builds log bytes delivered at each token, bounded by the model's look-ahead need.",
                ref="4 C03"),
    "C04": dict(cat="exploration", tech="co-simulation with NUL/high-byte inputs at read boundaries across table representations, under ASan/UBSan",
                text="Rule sets with and without NUL/8-bit bytes, inputs with NULs at read boundaries, token starts/ends and before EOF, across all table representations, interactive and batch, 7- and 8-bit, co-simulated with the model in which bytes 0-255 are plain symbols.  -Cfe/-CFe cases partly leave the 8-bit default to flex; C++ scanners also read through the class's own LexerInput() on a std::istream.",
                ref="4 C04"),
    "C05": dict(cat="exploration", tech="co-simulation of start-condition/stack histories against the model",
                text="1-60 inclusive/exclusive conditions, rules attached by list, <*>, none and nested scopes; yybegin/push/pop/top from actions and between calls, stack growth beyond the initial allocation, underflow through the fatal-error hook; the driver visits every condition with probe strings of every rule so that inactivity is observed too.  The stack and the current condition are also used before yylex() has ever run.",
                ref="4 C05"),
    "C06": dict(cat="exploration", tech="co-simulation with head/trail split oracle (set of valid splits)",
                text="Rule sets with ^, $, fixed and variable trailing context, '|' actions and yysetbol; the model computes the set of valid head lengths for r/s and the observed yyleng must be one of them, scanning resuming right after the head; rule sets with the 'dangerous trailing context' warning are skipped as the property says.",
                ref="4 C06"),
    "C07": dict(cat="exploration", tech="co-simulation of REJECT candidate order",
                text="Overlapping rules whose actions reject always or by a hash shared with the model; the sequence of (rule, yytext) visited must be all matches by decreasing length then rule order; the non-growing buffer's documented fatal error is accepted only when the token really does not fit.",
                ref="4 C07"),
    "C08": dict(cat="exploration", tech="co-simulation of yymore/yyless/yyunput/yyinput scripts (byte-queue model, conservation)",
                text="Actions call yyless/yymore/yyunput/yyinput with hash-chosen arguments, %array and %pointer, 1-3 sources chained by yywrap, small buffers and 1-byte reads; the model is a byte queue per buffer, so any lost, duplicated or reordered byte shows as a divergence.",
                ref="4 C08"),
    "C09": dict(cat="exploration", tech="co-simulation of yylineno at every action",
                text="yylineno is logged at every action/EOF action and compared with 1 + newlines consumed per the property's definition, for rules that can match newline through every syntactic route, with yyless/yyunput/yyinput/yymore/REJECT, per-buffer counts in reentrant scanners, and the option off.",
                ref="4 C09"),
    "C10": dict(cat="exploration", tech="co-simulation of end-of-input histories (yywrap chains, <<EOF>> rules, restart/new yyin)",
                text="1-5 sources (empty ones, ones ending inside a token) chained by scripted yywrap, <<EOF>> rules per condition/unqualified/none, EOF actions that terminate, return or restart, and post-termination new-yyin/yyrestart; W/E/R events make every yywrap consultation and EOF action visible.  Also: sources that report end of input once and then go on (yywrap returns 0, yyin unchanged), and programs that start on a string buffer and continue with files.",
                ref="4 C10"),
    "C11": dict(cat="exploration", tech="co-simulation of random buffer-operation histories with shared validity guards",
                text="Random histories of create/switch/push/pop/delete/scan_bytes/scan_string/scan_buffer/flush from actions and between calls, executed only when valid by rules shared by harness and model; one byte queue per buffer in the model; caller memory is overwritten after scan_bytes/scan_string; flush positions are checked against bytes actually delivered.  Includes yyrestart() and yypush_buffer_state() while the scanner has no current buffer (after the current one was deleted, or as the first call of the program).",
                ref="4 C11"),
    "C02": dict(cat="exploration", tech="differential co-simulation across 8-12 sampled configurations per rule set + refusal table",
                text="Each rule set (with ^, trailing context, REJECT, yymore/yyless, NUL and 8-bit patterns) is built under configurations sampled from tables x align x 7/8 bit x -I/-B x %pointer/%array x {nr, reentrant, c99, C++} x {%option, command line}; every run must match the one model stream, hence all configurations agree; part B replays the manual's unsupported combinations and expects the documented refusal or warning.",
                ref="4 C02"),
    "C12": dict(cat="exploration", tech="multi-instance programs: seeded interleavings under ASan, one thread per instance under ThreadSanitizer, per-instance co-simulation; nm for multi-prefix links",
                text="2-16 instances of one scanner (reentrant C, c99, C++ objects) in one process, each with its own input and log: interleaved on one thread by seeded schedules, and on one thread per instance under TSan with yields in the read path; each log must equal the instance's solo model stream; TSan reports are violations; scanners with different prefixes are linked into one program and their symbol tables checked.  Programs whose instances share tables loaded from a file; C++ objects built in dirty storage with both constructors.",
                ref="4 C12"),
    "C13": dict(cat="exploration", tech="ASan/UBSan + allocation ledger + destroy-and-reuse sessions over the workloads of C03-C11; memcheck sample",
                text="The workloads of C03-C11 re-run with user allocators that keep a ledger (unknown pointers to yyfree/yyrealloc, blocks left after yylex_destroy), a second session on the destroyed scanner (also one given up with 26-110 start conditions still stacked), %array tokens around YYLMAX, everything under ASan+UBSan, a sample under valgrind memcheck.  C++ lexers are constructed in storage filled with 0xA5.",
                ref="4 C13"),
    "C14": dict(cat="fault_enumeration", tech="fault injection: k-th allocation failure for every k, EIO/EINTR at every read index, classification of the exit path",
                text="For each scenario the allocation requests are counted and every single one is failed in turn; EIO and EINTR are injected at every read index of the fread, getc and read(2) paths; each faulty run must end in the fatal-error hook with the documented message or the documented error return, with an undisturbed prefix before it; EINTR must leave the stream identical.  Table loading is enumerated for compressed and for -Cf/-CF files.  A crash right after an injected failure is a violation even when the log was lost.",
                ref="4 C14"),
    "C15": dict(cat="fault_enumeration", tech="round-trip co-simulation, independent parser of the file format, --tables-verify, concatenation, truncation at every offset",
                text="Serialized-table scanners are co-simulated with the same model as the in-code build; the file is parsed by an independent reader of the documented layout; verify builds must accept their own file and reject one with a changed entry; sets are found by name in concatenations; every truncation point of small files (sampled for large) and wrong magic / name must fail cleanly under ASan.",
                ref="4 C15"),
    "C16": dict(cat="fault_enumeration", tech="mutation fuzzing of flex under ASan/UBSan, directed limit inputs, write-fault enumeration (/dev/full, missing directory, strace ENOSPC injection)",
                text="flex itself is run on mutated specifications with random options, on directed limit inputs, and with every output file failing (device full, missing directory, ENOSPC on the k-th write through strace); verdict at the process boundary: no signal, no sanitizer report, bounded progress, exit 0 only with complete outputs, non-zero only with a diagnostic.",
                ref="4 C16"),
    "C17": dict(cat="exploration", tech="exhaustive reachability on the model automaton per rule set + execution witnesses",
                text="Per rule set the model's subset automaton is explored exhaustively for every (start condition, BOL) pair: a rule is useful iff it is the first accepting rule of a reachable state; flex's warnings must match (only 'no false warning' with REJECT / variable trailing context); unwarned rules are confirmed by running a witness through the generated scanner; -w must not change the output.",
                ref="4 C17"),
    "C18": dict(cat="exploration", tech="differential generation under allocator/environment perturbation, memcheck, bootstrap comparison",
                text="The same specification and options are generated under MALLOC_PERTURB_, an LD_PRELOAD junk-fill/padding allocator shim with skewed time(), other cwd/TMPDIR/argv[0], ASan fill bytes and -t; scanner, header, tables and backup files must be byte-identical; a sample runs under memcheck; scan.l is regenerated by the final flex and compared with the stage-1 scanner.",
                ref="4 C18"),
    "C19": dict(cat="exploration", tech="finite option table: nm, compile-time and run-time probes with/without each option, %option vs command line, equivalent -C spellings compared byte for byte",
                text="Every row of an option table transcribed from the manual is probed on a scanner built with the option as %option, on the command line, and without it (symbols, static assertions, pointer types, run-time output, files, diagnostics); a row only counts when the probe distinguishes with from without.  Every spelling in the manual's option list (101 of them) is also handed to flex and must be recognized.",
                ref="4 C19"),
    "C20": dict(cat="exploration", tech="tracer payloads in every user-code region read back from the compiled scanner; #line self-consistency scan",
                text="Specifications with tracers in every user-code region carry hostile payloads (m4 quotes, m4_/M4_ names, $1, quotes, comment delimiters, backslash-newline, high bytes) in strings, comments and stringified code; the compiled scanner reports payload bytes and __LINE__/__FILE__, which must equal the tracer's true position; every '#line N \"outfile\"' must sit at line N-1; noline must leave none.  File names with quotes and backslashes, lines longer than 4095 bytes, header files.",
                ref="4 C20"),
}

checks = []
for pid, c in sorted(CHECKS.items()):
    checks.append({
        "property_id": pid,
        "quick_cmd": "python3 -m vf.check %s --tier quick" % pid,
        "thorough_cmd": "python3 -m vf.check %s --tier thorough" % pid,
        "evidence_file": "evidence/%s.json" % pid,
        "replay_cmd_template": "python3 -m vf.check %s --replay {path}" % pid,
        "engine": "vf",
        "level_claimed": {"category": c["cat"], "text": c["text"], "design_ref": "DESIGN.md " + c["ref"]},
        "level_note": c.get("note", STREAM_NOTE if pid in ("C01","C02","C03","C04","C05","C06","C07","C08","C09","C10","C11","C12","C13","C14","C15") else OTHER_NOTE),
        "technique": c["tech"],
    })
na = [{"property_id": p["id"], "reason": "no check registered"} for p in props if p["id"] not in CHECKS]
m = {
    "version": 1,
    "setup_cmd": "python3 -m vf.build plain && python3 -m vf.build san",
    "hooks": {"guard": "FLEX_VERIF",
              "enable": "checks compile flex from /repo/src with -DFLEX_VERIF; no hook commits exist: every observation goes through documented extension points (actions, YY_INPUT/yyread, yyalloc family, YY_FATAL_ERROR, yywrap) or the process boundary",
              "baseline_off_cmd": "make -C /repo -j8 check",
              "source_commits": [], "add_only": True},
    "engines": [{"name": "vf", "path": "vf/", "serves_properties": sorted(CHECKS),
                 "kind_free_text": "runtime monitoring: the flex built from /repo's working tree and the scanners it generates are run under ASan/UBSan/TSan/memcheck with event logs co-simulated against a reference model, differential comparison, ledgers and fault injection"}],
    "checks": checks,
    "not_applicable": na,
    "notes": "Exit 0 = held on everything explored; exit 1 + VIOLATION line = refuting execution with replay dir; exit 2 = harness failure or required coverage not observed (inconclusive).  Genuine defects of the pinned tree: known_findings.json (machine-readable, with pinned probes under known/) and KNOWN_FINDINGS.txt (fixed: / known: lines); a known finding prints a KNOWN-FINDING line and does not change the exit status, a fixed one that comes back is a VIOLATION.  VERIF_SEED selects the exploration seed, VERIF_REPO another source tree, VERIF_NO_EVIDENCE=1 leaves evidence/ untouched.",
}
json.dump(m, open(os.path.join(ROOT, "MANIFEST.json"), "w"), indent=1)
print("checks:", len(checks), "not_applicable:", len(na))
