#!/usr/bin/env python3
"""Regenerate /verif/MANIFEST.json from the table below."""
import json, os
ROOT = os.path.dirname(os.path.dirname(os.path.abspath(__file__)))
props = [json.loads(l) for l in open(os.path.join(ROOT, "properties.jsonl"))]

STREAM_NOTE = ("Trusted base: the Python reference model in vf/model.py + vf/pat.py (written from "
               "doc/flex.texi only; DESIGN.md Appendix A lists every semantic decision), the C "
               "harness runtime vf/harness/vf_rt.h, gcc and its ASan/UBSan runtimes.  Verdicts "
               "cover only the executions produced; cases outside the documented domain are "
               "not generated or not judged (DESIGN.md 2.3).")

CHECKS = {
    "C01": dict(cat="exploration", tech="differential co-simulation against a reference model (random rule sets + model-guided inputs) under ASan/UBSan",
                text="Random rule sets over the whole documented pattern language (plus 'large' profiles that force every generator array to grow) are printed in random documented spellings, compiled by the flex built from the working tree, and every scanner run is co-simulated event by event with an independent NFA-based model of the manual's matching rules; any sanitizer report, crash, hang or divergence is a violation.",
                ref="4 C01"),
    "C03": dict(cat="exploration", tech="co-simulation under varied read schedules/buffer sizes/input paths + look-ahead bound monitor",
                text="Each input is delivered under many (read-size schedule, buffer size) pairs, down to 1-byte reads into a 1-byte buffer, and through YY_INPUT, user yyread, stdio fread, stdio getc and read(2); every run must reproduce the buffering-free model's stream.  Interactive builds log bytes delivered at each token, bounded by the model's look-ahead need.",
                ref="4 C03"),
    "C04": dict(cat="exploration", tech="co-simulation with NUL/high-byte inputs at read boundaries across table representations, under ASan/UBSan",
                text="Rule sets with and without NUL/8-bit bytes, inputs with NULs at read boundaries, token starts/ends and before EOF, across all table representations, interactive and batch, 7- and 8-bit, co-simulated with the model in which bytes 0-255 are plain symbols.",
                ref="4 C04"),
    "C05": dict(cat="exploration", tech="co-simulation of start-condition/stack histories against the model",
                text="1-60 inclusive/exclusive conditions, rules attached by list, <*>, none and nested scopes; yybegin/push/pop/top from actions and between calls, stack growth beyond the initial allocation, underflow through the fatal-error hook; the driver visits every condition with probe strings of every rule so that inactivity is observed too.",
                ref="4 C05"),
    "C06": dict(cat="exploration", tech="co-simulation with head/trail split oracle (set of valid splits)",
                text="Rule sets with ^, $, fixed and variable trailing context, '|' actions and yysetbol; the model computes the set of valid head lengths for r/s and the observed yyleng must be one of them, scanning resuming right after the head; rule sets with the 'dangerous trailing context' warning are skipped as the property says.",
                ref="4 C06"),
    "C07": dict(cat="exploration", tech="co-simulation of REJECT candidate order",
                text="Overlapping rules whose actions reject always or by a hash shared with the model; the sequence of (rule, yytext) visited must be all matches by decreasing length then rule order; the non-growing buffer's documented fatal error is accepted only when the token really does not fit.",
                ref="4 C07"),
    "C08": dict(cat="exploration", tech="co-simulation of yymore/yyless/yyunput/yyinput scripts (byte-queue model, conservation)",
                text="Actions call yyless/yymore/yyunput/yyinput with hash-chosen arguments, %array and %pointer, 1-3 sources chained by yywrap, small buffers and 1-byte reads; the model is a byte queue per buffer, so any lost, duplicated or reordered byte shows as a divergence.",
                ref="4 C08"),
    "C09": dict(cat="exploration", tech="co-simulation of yylineno at every action",
                text="yylineno is logged at every action/EOF action and compared with 1 + newlines consumed per the property's definition, for rules that can match newline through every syntactic route, with yyless/yyunput/yyinput/yymore/REJECT, per-buffer counts in reentrant scanners, and the option off.",
                ref="4 C09"),
    "C10": dict(cat="exploration", tech="co-simulation of end-of-input histories (yywrap chains, <<EOF>> rules, restart/new yyin)",
                text="1-5 sources (empty ones, ones ending inside a token) chained by scripted yywrap, <<EOF>> rules per condition/unqualified/none, EOF actions that terminate, return or restart, and post-termination new-yyin/yyrestart; W/E/R events make every yywrap consultation and EOF action visible.",
                ref="4 C10"),
    "C11": dict(cat="exploration", tech="co-simulation of random buffer-operation histories with shared validity guards",
                text="Random histories of create/switch/push/pop/delete/scan_bytes/scan_string/scan_buffer/flush from actions and between calls, executed only when valid by rules shared by harness and model; one byte queue per buffer in the model; caller memory is overwritten after scan_bytes/scan_string; flush positions are checked against bytes actually delivered.",
                ref="4 C11"),
}

checks = []
for pid, c in sorted(CHECKS.items()):
    checks.append({
        "property_id": pid,
        "quick_cmd": "python3 -m vf.check %s --tier quick" % pid,
        "thorough_cmd": "python3 -m vf.check %s --tier thorough" % pid,
        "evidence_file": "evidence/%s.json" % pid,
        "replay_cmd_template": "python3 -m vf.check %s --replay {path}" % pid,
        "engine": "vf",
        "level_claimed": {"category": c["cat"], "text": c["text"], "design_ref": "DESIGN.md " + c["ref"]},
        "level_note": c.get("note", STREAM_NOTE),
        "technique": c["tech"],
    })
na = [{"property_id": p["id"], "reason": "check under construction in this round (design in DESIGN.md section 4); not yet registered"}
      for p in props if p["id"] not in CHECKS]
m = {
    "version": 1,
    "setup_cmd": "python3 -m vf.build plain && python3 -m vf.build san",
    "hooks": {"guard": "FLEX_VERIF",
              "enable": "checks compile flex from /repo/src with -DFLEX_VERIF; no hook commits exist: every observation goes through documented extension points (actions, YY_INPUT/yyread, yyalloc family, YY_FATAL_ERROR, yywrap) or the process boundary",
              "baseline_off_cmd": "make -C /repo -j8 check",
              "source_commits": [], "add_only": True},
    "engines": [{"name": "vf", "path": "vf/", "serves_properties": sorted(CHECKS),
                 "kind_free_text": "runtime monitoring: generated scanners run under ASan/UBSan with an event log co-simulated against a reference model"}],
    "checks": checks,
    "not_applicable": na,
    "notes": "Exit 0 = held on everything explored; exit 1 + VIOLATION line = refuting execution with replay dir; exit 2 = harness failure or required coverage not observed (inconclusive).",
}
json.dump(m, open(os.path.join(ROOT, "MANIFEST.json"), "w"), indent=1)
print("checks:", len(checks), "not_applicable:", len(na))
